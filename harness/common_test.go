package harness

import (
	"encoding/json"
	"flag"
	"fmt"
	"os"
	"path/filepath"
	"sort"
	"strconv"
	"strings"
	"testing"

	"pgregory.net/rapid"
	"verifharness/kvh"
)

// gIO is the process-wide shadow fed by the engine's hooks.
var gIO = kvh.NewIOLog()

func TestMain(m *testing.M) {
	if os.Getenv("VERIF_CHILD") != "" {
		os.Exit(childMain())
	}
	kvh.Install(gIO)
	kvh.StartMemoryWatchdog()
	kvh.StartDeadlockWatchdog()
	code := m.Run()
	os.Exit(code)
}

// childMain is the entry of re-executed child processes (C05, C16).
var childEntries = map[string]func() int{}

func childMain() int {
	if fn, ok := childEntries[os.Getenv("VERIF_CHILD")]; ok {
		return fn()
	}
	fmt.Fprintln(os.Stderr, "unknown VERIF_CHILD")
	return 3
}

// checkCases runs prop for the requested number of generated cases or until
// the soft deadline of the run; cases that were not generated any more are
// counted in the evidence (cases_not_run_after_soft_deadline).
func checkCases(t *testing.T, st *kvh.Stats, prop func(*rapid.T)) {
	t.Helper()
	rapid.Check(t, func(rt *rapid.T) {
		if kvh.GetEnv().PastSoftDeadline() {
			st.ExtraAdd("cases_not_run_after_soft_deadline", 1)
			return
		}
		prop(rt)
	})
}

// report records a violation with its replay artefact and fails the test from
// one single call site (rapid compares tracebacks while shrinking).
type fataler interface {
	Fatalf(format string, args ...any)
}

func report(t fataler, st *kvh.Stats, c any, f *kvh.Fail) {
	path := st.Violation(f.Sig, c, f.Msg)
	t.Fatalf("VIOLATION-CANDIDATE sig=%s replay=%s\n%s", f.Sig, path, f.Msg)
}

// probeT lets a probe (a fixed schedule owned by the harness) run outside a *testing.T, for --replay.
type probeT struct{ msg string }

type probeAbort struct{}

func (p *probeT) Fatalf(format string, a ...any) {
	p.msg = fmt.Sprintf(format, a...)
	panic(probeAbort{})
}

// replayProbe re-runs a probe; a violation it reports (a known finding is not one) is the failure of the replay.
func replayProbe(probe func(t fataler, st *kvh.Stats), property string) (fail *kvh.Fail) {
	pt := &probeT{}
	defer func() {
		if r := recover(); r != nil {
			if _, ok := r.(probeAbort); ok {
				fail = &kvh.Fail{Sig: "probe-fails", Msg: pt.msg}
				return
			}
			panic(r)
		}
	}()
	probe(pt, kvh.StatsFor(property))
	return nil
}

// finishProperty marks the stats complete; called at the end of every TestCnn.
func finishProperty(st *kvh.Stats) { st.Complete() }

// historySetups attach property-specific oracles to a history runner. They are
// used by both the generated runs and the replay of saved cases.
var historySetups = map[string]func(r *kvh.Runner){}

// reuseBuffers names the history properties whose generated callers reuse (and overwrite) their key/value
// buffers in half of the cases. Replays of such cases run with reuse on (a superset of what failed).
var reuseBuffers = map[string]bool{"C01": true, "C02": true, "C05": true, "C06": true, "C17": true, "C20": true}

// prefillProps names the history properties that start 8 % of their cases from a database holding 120..520 keys.
var prefillProps = map[string]bool{"C01": true, "C02": true, "C06": true, "C10": true, "C14x": true, "C15": true, "C17": true, "C18": true}

// replayers run a saved case of the given kind and return its failure.
var replayers = map[string]func(c *kvh.Case, raw []byte) *kvh.Fail{
	"history": replayHistory,
}

func replayHistory(c *kvh.Case, raw []byte) *kvh.Fail {
	r, f := kvh.NewRunner(c.Property, c.Opt, gIO)
	if f != nil {
		return f
	}
	defer r.Cleanup()
	if setup := historySetups[c.Property]; setup != nil {
		setup(r)
	}
	if r.Poison == nil && reuseBuffers[c.Property] && strings.Contains(c.Note, "reuse") {
		r.Poison = kvh.NewPoisonBufs()
	}
	for _, op := range c.Ops {
		if f := r.Step(op); f != nil {
			return f
		}
	}
	return r.Finish()
}

// scaleRapidChecks multiplies -rapid.checks for the rapid.Check calls made
// until the returned function is called (cheap properties run more cases).
func scaleRapidChecks(factor int) func() {
	f := flag.Lookup("rapid.checks")
	if f == nil {
		return func() {}
	}
	old := f.Value.String()
	n, err := strconv.Atoi(old)
	if err != nil {
		return func() {}
	}
	_ = flag.Set("rapid.checks", strconv.Itoa(n*factor))
	return func() { _ = flag.Set("rapid.checks", old) }
}

// setRapidChecks sets -rapid.checks to n until the returned function is called.
func setRapidChecks(n int) func() {
	f := flag.Lookup("rapid.checks")
	if f == nil {
		return func() {}
	}
	old := f.Value.String()
	_ = flag.Set("rapid.checks", strconv.Itoa(n))
	return func() { _ = flag.Set("rapid.checks", old) }
}

func jsonUnmarshal(raw []byte, v any) error { return json.Unmarshal(raw, v) }

// TestReplay re-executes saved cases without any generator: VERIF_REPLAY names
// a JSON case file or a directory of them.
func TestReplay(t *testing.T) {
	target := os.Getenv("VERIF_REPLAY")
	if target == "" {
		t.Skip("VERIF_REPLAY not set")
	}
	var files []string
	if st, err := os.Stat(target); err == nil && st.IsDir() {
		ents, _ := os.ReadDir(target)
		for _, e := range ents {
			if strings.HasSuffix(e.Name(), ".json") {
				files = append(files, filepath.Join(target, e.Name()))
			}
		}
		sort.Strings(files)
	} else {
		files = []string{target}
	}
	for i, f := range files {
		if len(files) > 1 && !kvh.GetEnv().Mine(i) {
			continue // a directory of cases is dealt out to the workers of the run
		}
		raw, err := os.ReadFile(f)
		if err != nil {
			t.Fatalf("read %s: %v", f, err)
		}
		var c kvh.Case
		if err := json.Unmarshal(raw, &c); err != nil {
			t.Fatalf("parse %s: %v", f, err)
		}
		rp := replayers[c.Kind]
		if rp == nil {
			t.Fatalf("%s: no replayer for kind %q", f, c.Kind)
		}
		st := kvh.StatsFor(c.Property)
		st.Eval(1)
		st.Label("replayed-regression-case")
		// the watchdogs (unbounded allocation, deadlock) report the file being replayed; replayers that register a
		// case of their own while they run simply replace it
		rawCopy := raw
		kvh.SetInFlight(&kvh.InFlight{Property: c.Property, Case: func() any { return json.RawMessage(rawCopy) }})
		fail := rp(&c, raw)
		kvh.SetInFlight(nil)
		if fail != nil {
			st.Violation(fail.Sig, raw, fail.Msg)
			fmt.Printf("REPLAY-FAIL file=%s property=%s sig=%s\n%s\n", f, c.Property, fail.Sig, fail.Msg)
			t.Errorf("replay of %s fails: %s", f, fail.Sig)
		} else {
			fmt.Printf("REPLAY-OK file=%s property=%s\n", f, c.Property)
		}
		st.Flush()
	}
}

// runHistoryCase is the generated state-machine run shared by the properties
// that quantify over operation histories.
func runHistoryCase(t *rapid.T, property string, prof *kvh.GenProfile, nonTrivial func(r *kvh.Runner) bool) {
	st := kvh.StatsFor(property)
	firstProfile := prof.OptProfile
	firstProfile.OddDirs = true // the directory of a plain history may have an odd name and hold foreign files
	first := kvh.GenOpt(t, "opt", firstProfile)
	pool := kvh.GenKeyPool(t, prof.Big)
	r, f := kvh.NewRunner(property, first, gIO)
	if f != nil {
		report(t, st, &kvh.Case{Property: property, Kind: "history", Opt: first}, f)
	}
	defer r.Cleanup()
	if setup := historySetups[property]; setup != nil {
		setup(r)
	}
	if r.Poison == nil && reuseBuffers[property] && kvh.Pct(t, 50, "reusebuffers") {
		// a legal caller: one key buffer and one value buffer for every call, overwritten after each return
		r.Poison = kvh.NewPoisonBufs()
		st.Label("caller-reuses-and-overwrites-its-buffers")
	}
	kvh.SetInFlight(&kvh.InFlight{Property: property, Case: func() any { return r.AsCase(property, "history", first) }})
	defer kvh.SetInFlight(nil)
	if prefillProps[property] && kvh.Pct(t, 8, "prefill") {
		// a deep index: enough keys per shard to split B-tree nodes (degree 33) and to grow skip-list towers
		n := 120 + kvh.U(t, 400, "prefillkeys")
		var ops []kvh.Op
		for i := 0; i < n; i++ {
			ops = append(ops, kvh.Op{K: "bput", Key: []byte(fmt.Sprintf("p%03d", (i*7919)%1000)), VLen: 1 + i%5, VSeed: r.NextSeed()})
		}
		for len(ops) > 0 {
			m := min(len(ops), 64)
			if f := r.Step(kvh.Op{K: "batch", Ops: ops[:m]}); f != nil {
				report(t, st, r.AsCase(property, "history", first), f)
			}
			ops = ops[m:]
		}
		st.Label("prefilled-with->=120-keys")
	}
	t.Repeat(map[string]func(*rapid.T){
		"op": func(t *rapid.T) {
			op := kvh.GenOp(t, r, pool, prof)
			if f := r.Step(op); f != nil {
				report(t, st, r.AsCase(property, "history", first), f)
			}
		},
	})
	if f := r.Finish(); f != nil {
		report(t, st, r.AsCase(property, "history", first), f)
	}
	st.Eval(1)
	r.AddLabels()
	if nonTrivial(r) {
		st.NonTrivial(r.CaseHash(first))
		if st.WantSample() {
			st.Sample(kvh.Abbrev(first, r.Ops))
		} else {
			st.Sample(nil)
		}
	}
}

// scaleRapidChecksDiv divides -rapid.checks by div (at least 1) until the returned function is called.
func scaleRapidChecksDiv(div int) func() {
	f := flag.Lookup("rapid.checks")
	if f == nil {
		return func() {}
	}
	old := f.Value.String()
	n, err := strconv.Atoi(old)
	if err != nil {
		return func() {}
	}
	_ = flag.Set("rapid.checks", strconv.Itoa(max(1, n/div)))
	return func() { _ = flag.Set("rapid.checks", old) }
}
