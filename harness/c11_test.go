package harness

import (
	"bytes"
	"fmt"
	"io"
	"os"
	"path/filepath"
	"testing"

	"github.com/XiXi-2024/xixi-kv/datafile"
	"github.com/XiXi-2024/xixi-kv/fio"
	"github.com/valyala/bytebufferpool"
	"pgregory.net/rapid"
	"verifharness/kvh"
)

// C11 — block/chunk framing round-trips every record at every offset.
// Runs directly on datafile.DataFile.

const c11Rule = "(a) rapid sequences of 1..12 records (type, key/value lengths from all classes incl. boundary-steered, batch ids 0/1/2^63/random) appended singly or as staged multi-record flushes to a FileIO and an MMap file in lock-step; (b) enumerated band: start offset s x payload length l for every l that ends the record within +-16 B of the 1st/2nd/3rd boundary ahead plus the 17 smallest lengths; (c) codec round-trips; oracle: sequential read returns the same records, order, positions and sizes as reported at write time then io.EOF; random read by position returns each value; position, size, padding and file growth equal an independent statement of the format; logical size == physical size; both back-ends byte-identical; non-trivial = a record that crosses a block boundary, starts after tail padding or ends within 8 B of a boundary; distinct = (s,l) pair or hash of the record sequence"

func TestC11(t *testing.T) {
	st := kvh.StatsFor("C11")
	st.SetRule(c11Rule,
		"the reference for sizes/positions is kvh.FrameLayout, written from the format description (32 KiB blocks, 7-byte chunk header, tails <= 7 B padded)",
		"files live on tmpfs; MMap files are compared after Close (they are extended while open)")
	defer finishProperty(st)
	t.Run("band", func(t *testing.T) { c11Band(t, st) })
	t.Run("far-offsets", func(t *testing.T) { c11FarOffsets(t, st) })
	t.Run("codec", func(t *testing.T) {
		restore := scaleRapidChecks(4)
		defer restore()
		checkCases(t, st, func(t *rapid.T) { c11Codec(t, st) })
	})
	t.Run("sequences", func(t *testing.T) {
		checkCases(t, st, func(t *rapid.T) { c11Sequence(t, st) })
	})
}

// ---------------------------------------------------------------- band

type c11Pair struct {
	Property string `json:"property"`
	Kind     string `json:"kind"`
	S        int64  `json:"s"`
	L        int    `json:"l"`
	IO       byte   `json:"io"`
}

// payload builds a record whose encoded length is exactly l (l >= 4).
func c11Record(l int, seed uint64) *datafile.LogRecord {
	// 1 type + varint(klen) + varint(vlen) + uvarint(0) + klen + vlen
	klen := 1
	if l < 5 {
		klen = 0
	}
	for v := l; v >= 0; v-- {
		if kvh.EncLen(klen, v, 0) == l {
			key := []byte("k")[:klen]
			return &datafile.LogRecord{Type: datafile.LogRecordNormal, Key: key, Value: kvh.GenValue(seed, v)}
		}
		if kvh.EncLen(klen, v, 0) < l {
			break
		}
	}
	// lengths that the varint width steps over: grow the key instead
	for k := 0; k < 6; k++ {
		for v := l; v >= 0 && kvh.EncLen(k, v, 0) >= l; v-- {
			if kvh.EncLen(k, v, 0) == l {
				return &datafile.LogRecord{Key: bytes.Repeat([]byte("k"), k), Value: kvh.GenValue(seed, v)}
			}
		}
	}
	return nil
}

func c11Band(t *testing.T, st *kvh.Stats) {
	e := kvh.GetEnv()
	dir := e.NewDir("c11band")
	defer os.RemoveAll(dir)
	header := make([]byte, datafile.MaxLogRecordHeaderSize)
	// start offsets
	var starts []int64
	if e.Thorough() {
		for s := int64(0); s < kvh.BlockSize; s++ {
			starts = append(starts, s)
		}
	} else {
		for s := int64(0); s < 28; s++ {
			starts = append(starts, s, kvh.BlockSize-1-s)
		}
		for s := int64(29) + (e.Seed*31)%17; s < kvh.BlockSize-29; s += 17 {
			starts = append(starts, s)
		}
	}
	pairs, unreachable := int64(0), int64(0)
	for i, s := range starts {
		if !e.Mine(i) {
			continue
		}
		// a filler record that ends exactly at s (s in 1..10 cannot be the end of a record)
		path := datafile.GetFileName(dir, uint32(i), datafile.DataFileSuffix)
		var fillerBytes []byte
		var filler *datafile.LogRecord
		if s > 0 {
			l := int(s) - kvh.ChunkHeader
			if l >= 4 {
				filler = c11Record(l, uint64(s))
			}
			if filler == nil {
				unreachable++
				continue
			}
			df, err := datafile.OpenFile(dir, uint32(i), datafile.DataFileSuffix, fio.StandardFIO)
			if err != nil {
				t.Fatalf("harness: %v", err)
			}
			if _, err := df.WriteLogRecord(filler, header); err != nil {
				t.Fatalf("harness: filler write: %v", err)
			}
			_ = df.Close()
			fillerBytes, _ = os.ReadFile(path)
			if int64(len(fillerBytes)) != s {
				report(t, st, &c11Pair{Property: "C11", Kind: "c11pair", S: 0, L: l}, &kvh.Fail{Sig: "frame-size", Msg: fmt.Sprintf("a %d-byte payload written at offset 0 produced a %d-byte file, the format says %d", l, len(fillerBytes), s)})
			}
		}
		// lengths
		var ls []int
		for l := 4; l <= 20; l++ {
			ls = append(ls, l)
		}
		for k := int64(1); k <= 3; k++ {
			for d := int64(-16); d <= 16; d++ {
				target := k*kvh.BlockSize + d
				// payload length so that the framed record ends at target
				startAt := s
				if s%kvh.BlockSize+kvh.ChunkHeader >= kvh.BlockSize {
					startAt = kvh.BlockSize // padded to the next block
				}
				guess := int(target - startAt - (k+1)*kvh.ChunkHeader)
				for g := guess - 8; g <= guess+8; g++ {
					if g < 4 {
						continue
					}
					if _, end, _, _ := kvh.FrameLayout(s, g); end == target {
						ls = append(ls, g)
					}
				}
			}
		}
		for _, l := range ls {
			io8 := byte(0)
			p := &c11Pair{Property: "C11", Kind: "c11pair", S: s, L: l, IO: io8}
			if f := c11RunPair(dir, uint32(i), path, fillerBytes, filler, p, header, st); f != nil {
				report(t, st, p, f)
			}
			pairs++
		}
		_ = os.Remove(path)
	}
	st.ExtraAdd("band_pairs", pairs)
	st.ExtraAdd("band_unreachable_start_offsets", unreachable)
	if e.Thorough() {
		st.Exhaustive("framing band: all start offsets 0..32767 x all payload lengths ending within +-16 B of the next three block boundaries + the 17 smallest lengths", pairs)
	}
}

func c11RunPair(dir string, id uint32, path string, fillerBytes []byte, filler *datafile.LogRecord, p *c11Pair, header []byte, st *kvh.Stats) (fail *kvh.Fail) {
	defer func() {
		if r := recover(); r != nil {
			fail = &kvh.Fail{Sig: "panic", Msg: fmt.Sprintf("s=%d l=%d: %v", p.S, p.L, r)}
		}
	}()
	kvh.SetInFlight(&kvh.InFlight{Property: "C11", Case: func() any { return p }})
	defer kvh.SetInFlight(nil)
	if err := os.WriteFile(path, fillerBytes, 0o644); err != nil {
		return &kvh.Fail{Sig: "harness", Msg: err.Error()}
	}
	rec := c11Record(p.L, uint64(p.S)*131+uint64(p.L))
	if rec == nil {
		return nil
	}
	df, err := datafile.OpenFile(dir, id, datafile.DataFileSuffix, fio.FileIOType(p.IO))
	if err != nil {
		return &kvh.Fail{Sig: "open-error", Msg: err.Error()}
	}
	defer df.Close()
	pos, err := df.WriteLogRecord(rec, header)
	if err != nil {
		return &kvh.Fail{Sig: "write-error", Msg: err.Error()}
	}
	start, end, size, padded := kvh.FrameLayout(p.S, p.L)
	st.Eval(1)
	crosses := start/kvh.BlockSize != (end-1)/kvh.BlockSize
	near := end%kvh.BlockSize <= 8 || end%kvh.BlockSize >= kvh.BlockSize-8
	if crosses || padded > 0 || near {
		st.NonTrivial(uint64(p.S)<<32 | uint64(p.L))
	}
	if crosses {
		st.Label("band-record-crosses-boundary")
	}
	if padded > 0 {
		st.Label("band-record-after-tail-padding")
	}
	if near {
		st.Label("band-record-ends-within-8B-of-boundary")
	}
	if st.WantSample() {
		st.Sample(map[string]any{"start_offset": p.S, "payload_len": p.L, "record_start": start, "record_end": end, "size": size, "padding": padded})
	} else {
		st.Sample(nil)
	}
	gotStart := int64(pos.BlockID)*kvh.BlockSize + int64(pos.Offset)
	if gotStart != start {
		return &kvh.Fail{Sig: "frame-position", Msg: fmt.Sprintf("s=%d l=%d: reported position %d (block %d offset %d), format says %d", p.S, p.L, gotStart, pos.BlockID, pos.Offset, start)}
	}
	if int64(pos.Size) != size {
		return &kvh.Fail{Sig: "frame-size", Msg: fmt.Sprintf("s=%d l=%d: reported size %d, the record occupies %d bytes", p.S, p.L, pos.Size, size)}
	}
	if df.Size() != end {
		return &kvh.Fail{Sig: "frame-logical-size", Msg: fmt.Sprintf("s=%d l=%d: DataFile.Size() = %d, format says %d", p.S, p.L, df.Size(), end)}
	}
	if p.IO == 0 {
		if fi, err := os.Stat(path); err != nil || fi.Size() != end {
			return &kvh.Fail{Sig: "frame-physical-size", Msg: fmt.Sprintf("s=%d l=%d: file size on disk %v, logical size %d", p.S, p.L, fi.Size(), end)}
		}
	}
	// sequential read: filler, record, EOF
	rd := df.NewReader()
	if filler != nil {
		r0, p0, err := rd.NextLogRecord()
		if err != nil {
			return &kvh.Fail{Sig: "frame-seq-read-error", Msg: fmt.Sprintf("s=%d l=%d: reading the first record: %v", p.S, p.L, err)}
		}
		if !bytes.Equal(r0.Value, filler.Value) || p0.BlockID != 0 || p0.Offset != 0 || int64(p0.Size) != p.S {
			return &kvh.Fail{Sig: "frame-seq-read-mismatch", Msg: fmt.Sprintf("s=%d l=%d: first record read back wrongly (pos %+v)", p.S, p.L, p0)}
		}
	}
	r1, p1, err := rd.NextLogRecord()
	if err != nil {
		return &kvh.Fail{Sig: "frame-seq-read-error", Msg: fmt.Sprintf("s=%d l=%d: reading the record: %v", p.S, p.L, err)}
	}
	if !sameB(r1.Key, rec.Key) || !sameB(r1.Value, rec.Value) || r1.Type != rec.Type {
		return &kvh.Fail{Sig: "frame-seq-read-mismatch", Msg: fmt.Sprintf("s=%d l=%d: record read back differs (value %s vs %s)", p.S, p.L, kvh.ValueDigest(r1.Value), kvh.ValueDigest(rec.Value))}
	}
	if *p1 != *pos {
		return &kvh.Fail{Sig: "frame-seq-position", Msg: fmt.Sprintf("s=%d l=%d: reader reports %+v, writer reported %+v", p.S, p.L, *p1, *pos)}
	}
	if _, _, err := rd.NextLogRecord(); err != io.EOF {
		return &kvh.Fail{Sig: "frame-no-eof", Msg: fmt.Sprintf("s=%d l=%d: after the last record the reader returned %v, want io.EOF", p.S, p.L, err)}
	}
	// random read
	val, err := df.ReadRecordValue(pos)
	if err != nil {
		return &kvh.Fail{Sig: "frame-random-read-error", Msg: fmt.Sprintf("s=%d l=%d: ReadRecordValue: %v", p.S, p.L, err)}
	}
	if !sameB(val, rec.Value) {
		return &kvh.Fail{Sig: "frame-random-read-mismatch", Msg: fmt.Sprintf("s=%d l=%d: ReadRecordValue returned %s, want %s", p.S, p.L, kvh.ValueDigest(val), kvh.ValueDigest(rec.Value))}
	}
	return nil
}

func sameB(a, b []byte) bool { return len(a) == 0 && len(b) == 0 || bytes.Equal(a, b) }

func init() {
	replayers["c11pair"] = func(_ *kvh.Case, raw []byte) *kvh.Fail {
		var p c11Pair
		if err := jsonUnmarshal(raw, &p); err != nil {
			return &kvh.Fail{Sig: "harness-bad-case", Msg: err.Error()}
		}
		e := kvh.GetEnv()
		dir := e.NewDir("c11replay")
		defer os.RemoveAll(dir)
		header := make([]byte, datafile.MaxLogRecordHeaderSize)
		var fillerBytes []byte
		var filler *datafile.LogRecord
		if p.S > 0 {
			filler = c11Record(int(p.S)-kvh.ChunkHeader, uint64(p.S))
			if filler == nil {
				return nil
			}
			df, err := datafile.OpenFile(dir, 1, datafile.DataFileSuffix, fio.StandardFIO)
			if err != nil {
				return &kvh.Fail{Sig: "harness", Msg: err.Error()}
			}
			_, _ = df.WriteLogRecord(filler, header)
			_ = df.Close()
			fillerBytes, _ = os.ReadFile(datafile.GetFileName(dir, 1, datafile.DataFileSuffix))
		}
		return c11RunPair(dir, 1, datafile.GetFileName(dir, 1, datafile.DataFileSuffix), fillerBytes, filler, &p, header, kvh.StatsFor("C11"))
	}
	replayers["c11seq"] = func(_ *kvh.Case, raw []byte) *kvh.Fail {
		var c c11Seq
		if err := jsonUnmarshal(raw, &c); err != nil {
			return &kvh.Fail{Sig: "harness-bad-case", Msg: err.Error()}
		}
		_, f := c11RunSeq(&c)
		return f
	}
}

// ---------------------------------------------------------------- sequences

type c11Rec struct {
	Type    byte   `json:"type"`
	KLen    int    `json:"klen"`
	VLen    int    `json:"vlen"`
	BatchID uint64 `json:"batch"`
	Group   int    `json:"group"` // records with the same non-zero group are flushed together
}

type c11Seq struct {
	Property string   `json:"property"`
	Kind     string   `json:"kind"`
	Recs     []c11Rec `json:"recs"`
}

func c11Sequence(t *rapid.T, st *kvh.Stats) {
	c := &c11Seq{Property: "C11", Kind: "c11seq"}
	n := 1 + kvh.U(t, 12, "n")
	off := int64(0)
	group := 0
	for i := 0; i < n; i++ {
		r := c11Rec{Type: byte(kvh.U(t, 3, "type"))}
		switch kvh.U(t, 10, "kclass") {
		case 0:
			r.KLen = 0
		case 1:
			r.KLen = kvh.Pick(t, []int{300, 5000, 33000}, "klong")
		default:
			r.KLen = 1 + kvh.U(t, 40, "klen")
		}
		r.BatchID = kvh.Pick(t, []uint64{0, 0, 1, 1 << 63, 0x1d2c3b4a59687766, 127, 128}, "batch")
		cls := kvh.U(t, 100, "vclass")
		switch {
		case cls < 10:
			r.VLen = 0
		case cls < 40:
			r.VLen = rapid.IntRange(1, 300).Draw(t, "vlen")
		case cls < 80:
			k := int64(1 + kvh.U(t, 3, "kth"))
			d := int64(kvh.U(t, 33, "delta")) - 16
			r.VLen, _ = kvh.SteerVLen(off, r.KLen, r.BatchID, (off/kvh.BlockSize+k)*kvh.BlockSize+d)
		default:
			r.VLen = rapid.IntRange(kvh.BlockSize-100, 3*kvh.BlockSize).Draw(t, "vbig")
		}
		if kvh.Pct(t, 40, "grouped") {
			if group == 0 || kvh.Pct(t, 40, "newgroup") {
				group = i + 1
			}
			r.Group = group
		} else {
			group = 0
		}
		_, off, _, _ = kvh.FrameLayout(off, kvh.EncLen(r.KLen, r.VLen, r.BatchID))
		c.Recs = append(c.Recs, r)
	}
	feat, f := c11RunSeq(c)
	if f != nil {
		report(t, st, c, f)
	}
	st.Eval(1)
	for k, v := range feat {
		if v {
			st.Label("seq-" + k)
		}
	}
	if feat["crosses-boundary"] || feat["after-tail-padding"] || feat["ends-within-8B-of-boundary"] {
		st.NonTrivial(kvh.Hash64([]byte(fmt.Sprint(c.Recs))))
		if st.WantSample() {
			st.Sample(c)
		} else {
			st.Sample(nil)
		}
	}
}

func c11RunSeq(c *c11Seq) (feat map[string]bool, fail *kvh.Fail) {
	feat = map[string]bool{}
	defer func() {
		if r := recover(); r != nil {
			fail = &kvh.Fail{Sig: "panic", Msg: fmt.Sprint(r)}
		}
	}()
	kvh.SetInFlight(&kvh.InFlight{Property: "C11", Case: func() any { return c }})
	defer kvh.SetInFlight(nil)
	e := kvh.GetEnv()
	dir := e.NewDir("c11seq")
	defer os.RemoveAll(dir)
	header := make([]byte, datafile.MaxLogRecordHeaderSize)
	type written struct {
		rec *datafile.LogRecord
		pos [2]*datafile.DataPos
	}
	var files [2]*datafile.DataFile
	for io8 := 0; io8 < 2; io8++ {
		df, err := datafile.OpenFile(filepath.Join(dir), uint32(io8), datafile.DataFileSuffix, fio.FileIOType(io8))
		if err != nil {
			return feat, &kvh.Fail{Sig: "open-error", Msg: err.Error()}
		}
		files[io8] = df
	}
	closed := false
	defer func() {
		if !closed {
			_ = files[0].Close()
			_ = files[1].Close()
		}
	}()
	var recs []written
	off := int64(0)
	for i := 0; i < len(c.Recs); {
		j := i + 1
		if c.Recs[i].Group != 0 {
			for j < len(c.Recs) && c.Recs[j].Group == c.Recs[i].Group {
				j++
			}
		}
		var batch []*datafile.LogRecord
		for k := i; k < j; k++ {
			r := c.Recs[k]
			key := kvh.GenValue(uint64(k)+77, r.KLen)
			batch = append(batch, &datafile.LogRecord{Type: r.Type, Key: key, Value: kvh.GenValue(uint64(k)+1, r.VLen), BatchID: r.BatchID})
		}
		var poss [2][]*datafile.DataPos
		for io8 := 0; io8 < 2; io8++ {
			if c.Recs[i].Group == 0 {
				p, err := files[io8].WriteLogRecord(batch[0], header)
				if err != nil {
					return feat, &kvh.Fail{Sig: "write-error", Msg: err.Error()}
				}
				poss[io8] = []*datafile.DataPos{p}
			} else {
				feat["multi-record-flush"] = true
				for _, r := range batch {
					files[io8].WriteStagedLogRecord(r, header)
				}
				ps, err := files[io8].FlushStaged()
				if err != nil {
					return feat, &kvh.Fail{Sig: "flush-error", Msg: err.Error()}
				}
				if len(ps) != len(batch) {
					return feat, &kvh.Fail{Sig: "flush-positions", Msg: fmt.Sprintf("FlushStaged returned %d positions for %d records", len(ps), len(batch))}
				}
				poss[io8] = ps
			}
		}
		for k, r := range batch {
			l := kvh.EncLen(len(r.Key), len(r.Value), r.BatchID)
			start, end, size, padded := kvh.FrameLayout(off, l)
			if start/kvh.BlockSize != (end-1)/kvh.BlockSize {
				feat["crosses-boundary"] = true
			}
			if padded > 0 {
				feat["after-tail-padding"] = true
			}
			if end%kvh.BlockSize <= 8 || end%kvh.BlockSize >= kvh.BlockSize-8 {
				feat["ends-within-8B-of-boundary"] = true
			}
			for io8 := 0; io8 < 2; io8++ {
				p := poss[io8][k]
				p.Fid = 0
				if int64(p.BlockID)*kvh.BlockSize+int64(p.Offset) != start || int64(p.Size) != size {
					return feat, &kvh.Fail{Sig: "frame-position", Msg: fmt.Sprintf("record %d (io %d): reported %+v, format says start %d size %d", i+k, io8, *p, start, size)}
				}
			}
			recs = append(recs, written{rec: r, pos: [2]*datafile.DataPos{poss[0][k], poss[1][k]}})
			off = end
		}
		i = j
	}
	check := func(df *datafile.DataFile, io8 int, stage string) *kvh.Fail {
		if df.Size() != off {
			return &kvh.Fail{Sig: "frame-logical-size", Msg: fmt.Sprintf("%s io %d: Size() = %d, format says %d", stage, io8, df.Size(), off)}
		}
		rd := df.NewReader()
		for n, w := range recs {
			r, p, err := rd.NextLogRecord()
			if err != nil {
				return &kvh.Fail{Sig: "frame-seq-read-error", Msg: fmt.Sprintf("%s io %d: record %d: %v", stage, io8, n, err)}
			}
			if r.Type != w.rec.Type || r.BatchID != w.rec.BatchID || !sameB(r.Key, w.rec.Key) || !sameB(r.Value, w.rec.Value) {
				return &kvh.Fail{Sig: "frame-seq-read-mismatch", Msg: fmt.Sprintf("%s io %d: record %d read back differs: type %d/%d batch %d/%d klen %d/%d vlen %d/%d", stage, io8, n, r.Type, w.rec.Type, r.BatchID, w.rec.BatchID, len(r.Key), len(w.rec.Key), len(r.Value), len(w.rec.Value))}
			}
			p.Fid = 0
			if *p != *w.pos[0] {
				return &kvh.Fail{Sig: "frame-seq-position", Msg: fmt.Sprintf("%s io %d: record %d reader position %+v, writer %+v", stage, io8, n, *p, *w.pos[0])}
			}
			q := *w.pos[0]
			q.Fid = df.ID
			v, err := df.ReadRecordValue(&q)
			if err != nil {
				return &kvh.Fail{Sig: "frame-random-read-error", Msg: fmt.Sprintf("%s io %d: record %d: %v", stage, io8, n, err)}
			}
			if !sameB(v, w.rec.Value) {
				return &kvh.Fail{Sig: "frame-random-read-mismatch", Msg: fmt.Sprintf("%s io %d: record %d: ReadRecordValue %s want %s", stage, io8, n, kvh.ValueDigest(v), kvh.ValueDigest(w.rec.Value))}
			}
		}
		if _, _, err := rd.NextLogRecord(); err != io.EOF {
			return &kvh.Fail{Sig: "frame-no-eof", Msg: fmt.Sprintf("%s io %d: after the last record: %v, want io.EOF", stage, io8, err)}
		}
		return nil
	}
	for io8 := 0; io8 < 2; io8++ {
		if f := check(files[io8], io8, "live"); f != nil {
			return feat, f
		}
	}
	closed = true
	for io8 := 0; io8 < 2; io8++ {
		if err := files[io8].Close(); err != nil {
			return feat, &kvh.Fail{Sig: "close-error", Msg: err.Error()}
		}
	}
	b0, _ := os.ReadFile(datafile.GetFileName(dir, 0, datafile.DataFileSuffix))
	b1, _ := os.ReadFile(datafile.GetFileName(dir, 1, datafile.DataFileSuffix))
	if int64(len(b0)) != off {
		return feat, &kvh.Fail{Sig: "frame-physical-size", Msg: fmt.Sprintf("standard file is %d bytes on disk, logical size %d", len(b0), off)}
	}
	if int64(len(b1)) != off {
		return feat, &kvh.Fail{Sig: "frame-physical-size", Msg: fmt.Sprintf("mmap file is %d bytes on disk after Close, logical size %d", len(b1), off)}
	}
	if !bytes.Equal(b0, b1) {
		return feat, &kvh.Fail{Sig: "backends-differ", Msg: fmt.Sprintf("standard and mmap files differ at byte %d of %d", firstDiffB(b0, b1), len(b0))}
	}
	// reopen, also crosswise (the file written by one back-end read by the other)
	for io8 := 0; io8 < 2; io8++ {
		df, err := datafile.OpenFile(dir, uint32(io8), datafile.DataFileSuffix, fio.FileIOType(1-io8))
		if err != nil {
			return feat, &kvh.Fail{Sig: "open-error", Msg: err.Error()}
		}
		f := check(df, 1-io8, "reopened")
		_ = df.Close()
		if f != nil {
			return feat, f
		}
	}
	return feat, nil
}

func firstDiffB(a, b []byte) int {
	n := min(len(a), len(b))
	for i := 0; i < n; i++ {
		if a[i] != b[i] {
			return i
		}
	}
	return n
}

// ---------------------------------------------------------------- codec

func c11Codec(t *rapid.T, st *kvh.Stats) {
	varintish := []byte{0x00, 0x01, 0x7f, 0x80, 0xff}
	keyGen := rapid.Custom(func(t *rapid.T) []byte {
		n := rapid.IntRange(0, 40).Draw(t, "klen")
		k := make([]byte, n)
		for i := range k {
			if kvh.Pct(t, 60, "vi") {
				k[i] = kvh.Pick(t, varintish, "vb")
			} else {
				k[i] = rapid.Byte().Draw(t, "b")
			}
		}
		return k
	})
	rec := &datafile.LogRecord{
		Type:    byte(kvh.U(t, 3, "type")),
		Key:     keyGen.Draw(t, "key"),
		Value:   rapid.SliceOfN(rapid.Byte(), 0, 300).Draw(t, "value"),
		BatchID: rapid.Uint64().Draw(t, "batch"),
	}
	header := make([]byte, datafile.MaxLogRecordHeaderSize)
	buf := bytebufferpool.Get()
	datafile.EncodeLogRecord(rec, header, buf)
	enc := append([]byte(nil), buf.B...)
	bytebufferpool.Put(buf)
	fail := func(sig, msg string) {
		report(t, st, map[string]any{"property": "C11", "kind": "c11codec", "type": rec.Type, "key": rec.Key, "value": rec.Value, "batch": rec.BatchID}, &kvh.Fail{Sig: sig, Msg: msg})
	}
	if len(enc) != kvh.EncLen(len(rec.Key), len(rec.Value), rec.BatchID) {
		fail("codec-length", fmt.Sprintf("encoded length %d, format says %d", len(enc), kvh.EncLen(len(rec.Key), len(rec.Value), rec.BatchID)))
	}
	dec := datafile.DecodeLogRecord(enc)
	if dec.Type != rec.Type || dec.BatchID != rec.BatchID || !sameB(dec.Key, rec.Key) || !sameB(dec.Value, rec.Value) {
		fail("codec-roundtrip", fmt.Sprintf("DecodeLogRecord(EncodeLogRecord(r)) != r: %+v vs %+v", dec, rec))
	}
	if v := datafile.DecodeLogRecordValue(enc); !sameB(v, rec.Value) {
		fail("codec-roundtrip", fmt.Sprintf("DecodeLogRecordValue returned %x, want %x", v, rec.Value))
	}
	pos := &datafile.DataPos{
		Fid:     rapid.Uint32().Draw(t, "fid"),
		BlockID: rapid.Uint32().Draw(t, "block"),
		Offset:  rapid.Uint32Range(0, kvh.BlockSize-1).Draw(t, "off"),
		Size:    rapid.Uint32().Draw(t, "size"),
	}
	hp := make([]byte, datafile.MaxLogRecordPosSize)
	hb := bytebufferpool.Get()
	datafile.EncodeHintRecord(rec.Key, pos, hp, hb)
	henc := append([]byte(nil), hb.B...)
	bytebufferpool.Put(hb)
	k2, p2 := datafile.DecodeHintRecord(henc)
	if !sameB(k2, rec.Key) || *p2 != *pos {
		fail("hint-codec-roundtrip", fmt.Sprintf("DecodeHintRecord(EncodeHintRecord(%x,%+v)) = (%x,%+v)", rec.Key, *pos, k2, *p2))
	}
	st.Eval(1)
	st.Label("codec-roundtrip")
}
