package harness

import (
	"fmt"
	"os"
	"path/filepath"
	"runtime/debug"
	"sync"
	"sync/atomic"
	"testing"
	"time"

	kv "github.com/XiXi-2024/xixi-kv"
	"github.com/anishathalye/porcupine"
	"pgregory.net/rapid"
	"verifharness/kvh"
)

// C17, concurrent part: a Stat result is a snapshot. While other goroutines
// put and delete, every Stat() must report the number of live keys AND the
// live bytes (DiskSize - ReclaimableSize) of one single state the database
// passed through between the call and the return of that Stat - the history
// of Put/Delete/Stat is checked for linearizability against a model whose
// state is the value length stored under each key.

const c17cRule = "concurrent part: 2..6 goroutines x 3..12 calls from {Put, Delete, Stat} on 2..4 keys after a short single-threaded prehistory, ShardNum in {1,16,1024,5000}, every index type, all records in the first block of their file; oracle: the recorded history (global logical clock at call and return) is linearizable for the model state (value length per key), where Stat must return KeyNum == number of present keys and DiskSize-ReclaimableSize == sum of their record sizes (format reference) in one and the same state; non-trivial = a Stat overlaps a write in logical time"

type c17cOp struct {
	K    string `json:"k"` // put del stat
	Key  int    `json:"key"`
	VLen int    `json:"vlen,omitempty"`
}

type c17cEvent struct {
	Client int    `json:"client"`
	Op     c17cOp `json:"op"`
	Call   int64  `json:"call"`
	Ret    int64  `json:"ret"`
	Keys   int    `json:"keys,omitempty"`
	Live   int64  `json:"live,omitempty"`
	Err    string `json:"err,omitempty"`
}

type c17cCase struct {
	Property string      `json:"property"`
	Kind     string      `json:"kind"`
	Opt      kvh.Opt     `json:"options"`
	Pre      []c17cOp    `json:"pre,omitempty"`
	Clients  [][]c17cOp  `json:"clients"`
	History  []c17cEvent `json:"history,omitempty"`
}

var c17cKeys = []string{"k", "j", "ab", "c"}

type c17cState [4]int // value length + 1 per key, 0 = absent

type c17cOut struct {
	keys int
	live int64
}

func c17cRecSize(key, vlen int) int64 {
	return int64(kvh.ChunkHeader + kvh.EncLen(len(c17cKeys[key]), vlen, 0))
}

var c17cModel = porcupine.Model{
	Init: func() interface{} { return c17cState{} },
	Step: func(state, input, output interface{}) (bool, interface{}) {
		s := state.(c17cState)
		in := input.(c17cOp)
		switch in.K {
		case "put":
			s[in.Key] = in.VLen + 1
			return true, s
		case "del":
			s[in.Key] = 0
			return true, s
		default:
			out := output.(c17cOut)
			n, live := 0, int64(0)
			for k, v := range s {
				if v > 0 {
					n++
					live += c17cRecSize(k, v-1)
				}
			}
			return out.keys == n && out.live == live, s
		}
	},
	Equal: func(a, b interface{}) bool { return a.(c17cState) == b.(c17cState) },
}

func c17cCheck(hist []c17cEvent) (fail *kvh.Fail, overlap, unknown bool) {
	var ops []porcupine.Operation
	for _, e := range hist {
		if e.Err != "" {
			return &kvh.Fail{Sig: "internal-error-under-concurrency", Msg: fmt.Sprintf("client %d %s(%d) returned %s", e.Client, e.Op.K, e.Op.Key, e.Err)}, false, false
		}
		ops = append(ops, porcupine.Operation{ClientId: e.Client, Input: e.Op, Call: e.Call, Output: c17cOut{e.Keys, e.Live}, Return: e.Ret})
	}
	for _, a := range hist {
		for _, b := range hist {
			if a.Op.K == "stat" && b.Op.K != "stat" && a.Call < b.Ret && b.Call < a.Ret {
				overlap = true
			}
		}
	}
	switch porcupine.CheckOperationsTimeout(c17cModel, ops, 3*time.Second) {
	case porcupine.Ok:
		return nil, overlap, false
	case porcupine.Unknown:
		return nil, overlap, true
	}
	msg := "no order of the operations that respects their real-time order explains every Stat() result as the key count and live bytes of ONE state:\n"
	for _, e := range hist {
		if e.Op.K == "stat" {
			msg += fmt.Sprintf("  client %d stat -> KeyNum=%d live=%d  [%d,%d]\n", e.Client, e.Keys, e.Live, e.Call, e.Ret)
		} else {
			msg += fmt.Sprintf("  client %d %s %s vlen=%d (record %d B)  [%d,%d]\n", e.Client, e.Op.K, c17cKeys[e.Op.Key], e.Op.VLen, c17cRecSize(e.Op.Key, e.Op.VLen), e.Call, e.Ret)
		}
	}
	return &kvh.Fail{Sig: "stat-not-a-snapshot", Msg: msg}, overlap, false
}

func runC17c(c *c17cCase) (overlap, unknown bool, fail *kvh.Fail) {
	e := kvh.GetEnv()
	base := e.NewDir("c17c")
	dir := filepath.Join(base, "db")
	defer func() {
		gIO.Forget(base)
		_ = os.RemoveAll(base)
	}()
	db, err := kv.Open(c.Opt.KV(dir))
	if err != nil {
		return false, false, &kvh.Fail{Sig: "open-error", Msg: err.Error()}
	}
	defer func() {
		func() {
			defer func() { _ = recover() }()
			_ = db.Close()
		}()
	}()
	var clock atomic.Int64
	var mu sync.Mutex
	var hist []c17cEvent
	exec := func(client int, op c17cOp) {
		ev := c17cEvent{Client: client, Op: op}
		ev.Call = clock.Add(1)
		switch op.K {
		case "put":
			ev.Err = errStr(db.Put([]byte(c17cKeys[op.Key]), kvh.GenValue(uint64(op.VLen)+3, op.VLen)))
		case "del":
			ev.Err = errStr(db.Delete([]byte(c17cKeys[op.Key])))
		default:
			s := db.Stat()
			ev.Keys, ev.Live = s.KeyNum, s.DiskSize-s.ReclaimableSize
		}
		ev.Ret = clock.Add(1)
		mu.Lock()
		hist = append(hist, ev)
		mu.Unlock()
	}
	for _, op := range c.Pre {
		exec(0, op)
	}
	var wg sync.WaitGroup
	var panicked atomic.Value
	start := make(chan struct{})
	for i := range c.Clients {
		wg.Add(1)
		go func(i int) {
			defer wg.Done()
			defer func() {
				if p := recover(); p != nil {
					panicked.Store(fmt.Sprintf("client %d panicked: %v\n%s", i, p, debug.Stack()))
				}
			}()
			<-start
			for _, op := range c.Clients[i] {
				exec(i+1, op)
			}
		}(i)
	}
	close(start)
	done := make(chan struct{})
	go func() { wg.Wait(); close(done) }()
	if verdict, dump := waitOrDeadlock(done, "runC17c.func"); verdict != "done" {
		if verdict == "deadlock" {
			return false, false, &kvh.Fail{Sig: "deadlock", Msg: dump[:min(len(dump), 6000)]}
		}
		return false, false, &kvh.Fail{Sig: "harness-timeout", Msg: "clients did not finish"}
	}
	if p := panicked.Load(); p != nil {
		return false, false, &kvh.Fail{Sig: "panic-under-concurrency", Msg: p.(string)}
	}
	f, overlap, unknown := c17cCheck(hist)
	if f != nil {
		c.History = hist
	}
	return overlap, unknown, f
}

func c17cGen(t *rapid.T, nk int, label string, statPct int) c17cOp {
	op := c17cOp{Key: kvh.U(t, nk, label+"key")}
	switch x := kvh.U(t, 100, label+"kind"); {
	case x < statPct:
		return c17cOp{K: "stat"}
	case x < statPct+(100-statPct)*55/100:
		op.K = "put"
		op.VLen = kvh.U(t, 200, label+"vlen")
	default:
		op.K = "del"
	}
	return op
}

func c17Concurrent(t *testing.T, st *kvh.Stats) {
	checkCases(t, st, func(t *rapid.T) {
		c := &c17cCase{Property: "C17", Kind: "c17c"}
		c.Opt = kvh.GenOpt(t, "opt", kvh.OptProfile{NoMMap: true, FileSizes: []int64{1 << 20}})
		c.Opt.Shards = kvh.Pick(t, []int{1, 16, 1024, 5000, 5000}, "shards")
		nk := 2 + kvh.U(t, 3, "nkeys")
		for i, n := 0, kvh.U(t, 5, "npre"); i < n; i++ {
			c.Pre = append(c.Pre, c17cGen(t, nk, "pre", 0))
		}
		for i, n := 0, 2+kvh.U(t, 5, "nclients"); i < n; i++ {
			var prog []c17cOp
			for j, m := 0, 3+kvh.U(t, 10, "nops"); j < m; j++ {
				prog = append(prog, c17cGen(t, nk, "op", 30))
			}
			c.Clients = append(c.Clients, prog)
		}
		kvh.PersistCase("C17", c)
		overlap, unknown, f := runC17c(c)
		kvh.ClearPersisted("C17")
		if f != nil {
			if f.Sig == "harness-timeout" {
				st.Label("inconclusive-harness-timeout")
				return
			}
			report(t, st, c, f)
		}
		st.Eval(1)
		st.Label("concurrent-stat-program")
		if unknown {
			st.Label("porcupine-unknown")
		}
		if overlap {
			st.Label("stat-overlaps-a-write")
			st.NonTrivial(kvh.Hash64([]byte(fmt.Sprintf("%+v", *c))))
		}
	})
}

func init() {
	replayers["c17c"] = func(_ *kvh.Case, raw []byte) *kvh.Fail {
		var c c17cCase
		if err := jsonUnmarshal(raw, &c); err != nil {
			return &kvh.Fail{Sig: "harness-bad-case", Msg: err.Error()}
		}
		// the saved history is the deterministic replay unit
		if len(c.History) > 0 {
			if f, _, _ := c17cCheck(c.History); f != nil {
				return f
			}
		}
		for i := 0; i < 50; i++ {
			cc := c
			cc.History = nil
			if _, _, f := runC17c(&cc); f != nil {
				return f
			}
		}
		return nil
	}
}
