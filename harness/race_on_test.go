//go:build race

package harness

const raceEnabled = true
