package harness

import (
	"errors"
	"fmt"
	"os"
	"path/filepath"
	"runtime/debug"
	"strings"
	"sync"
	"sync/atomic"
	"testing"

	kv "github.com/XiXi-2024/xixi-kv"
	"pgregory.net/rapid"
	"verifharness/kvh"
)

// C09 — the public API is free of data races, panics and deadlocks under
// concurrent use. The binary is built with -race.

const c09Rule = "generated concurrent programs: 2..16 goroutines x 5..40 calls from {Put, Get, Delete, ListKeys, Fold, NewIterator+Rewind/Seek/Next/Key/Value/Close, Stat, Sync, NewBatch->ops->Commit as one compound action, Merge} on 1..6 overlapping keys, each index type, DataFileSize 200..4096 so that rotations happen during the run, binary built with -race; oracle: (i) the race detector's log does not grow during the case, (ii) no goroutine panics, (iii) all goroutines finish (a watchdog inspects goroutine wait states after a generous limit), (iv) every returned error belongs to the operation's documented set; non-trivial = >= 2 goroutines touch the same key or one scans (ListKeys/Fold/iterator/Stat) while another writes; distinct = hash of the programs"

type c09Call struct {
	K    string    `json:"k"`
	Key  string    `json:"key,omitempty"`
	VLen int       `json:"vlen,omitempty"`
	Sub  []c09Call `json:"sub,omitempty"`
	N    int       `json:"n,omitempty"`
	Rev  bool      `json:"rev,omitempty"`
}

type c09Case struct {
	Property string      `json:"property"`
	Kind     string      `json:"kind"`
	Opt      kvh.Opt     `json:"options"`
	Progs    [][]c09Call `json:"programs"`
	// the goroutines start on a database that has Pre behind it, then (optionally) a Merge, then a restart
	Pre       []c09Call `json:"pre,omitempty"`
	PreMerge  bool      `json:"preMerge,omitempty"`
	PreReopen bool      `json:"preReopen,omitempty"`
	// a Backup (single goroutine, into a scratch directory) is the last call before the goroutines start
	PreBackup bool `json:"preBackup,omitempty"`
}

var c09Keys = []string{"k", "j", "ab", "c", "b\x00", "zz"}

func genC09Call(t *rapid.T, nkeys int, inBatch bool) c09Call {
	key := c09Keys[kvh.U(t, nkeys, "key")]
	x := kvh.U(t, 100, "kind")
	if inBatch {
		switch {
		case x < 55:
			return c09Call{K: "bput", Key: key, VLen: 1 + kvh.U(t, 200, "vlen")}
		case x < 80:
			return c09Call{K: "bdel", Key: key}
		default:
			return c09Call{K: "bget", Key: key}
		}
	}
	switch {
	case x < 30:
		return c09Call{K: "put", Key: key, VLen: 1 + kvh.U(t, 300, "vlen")}
	case x < 42:
		return c09Call{K: "del", Key: key}
	case x < 57:
		return c09Call{K: "get", Key: key}
	case x < 64:
		return c09Call{K: "listkeys"}
	case x < 70:
		return c09Call{K: "fold"}
	case x < 80:
		return c09Call{K: "iter", Key: key, N: kvh.U(t, 6, "n"), Rev: kvh.Pct(t, 50, "rev")}
	case x < 86:
		return c09Call{K: "stat"}
	case x < 89:
		return c09Call{K: "sync"}
	case x < 96:
		c := c09Call{K: "batch"}
		for i, n := 0, 1+kvh.U(t, 4, "nsub"); i < n; i++ {
			c.Sub = append(c.Sub, genC09Call(t, nkeys, true))
		}
		return c
	case x < 98:
		// not in the statement's list, but C20 promises that the source stays usable while backups are repeated
		// during continued use: a Backup that races with the calls of other goroutines is reported here
		return c09Call{K: "backup"}
	default:
		return c09Call{K: "merge"}
	}
}

var c09BackupSeq atomic.Int64

func c09Exec(db *kv.DB, c c09Call) error {
	bad := func(op string, err error, allowed ...error) error {
		if err == nil {
			return nil
		}
		for _, a := range allowed {
			if errors.Is(err, a) {
				return nil
			}
		}
		return fmt.Errorf("%s returned %v", op, err)
	}
	switch c.K {
	case "put":
		return bad("Put", db.Put([]byte(c.Key), kvh.GenValue(uint64(c.VLen), c.VLen)))
	case "del":
		return bad("Delete", db.Delete([]byte(c.Key)))
	case "get":
		_, err := db.Get([]byte(c.Key))
		return bad("Get", err, kv.ErrKeyNotFound)
	case "listkeys":
		for _, k := range db.ListKeys() {
			if k == nil {
				return errors.New("ListKeys returned a nil key")
			}
		}
	case "fold":
		return bad("Fold", db.Fold(func(k, v []byte) bool { return true }))
	case "iter":
		it := db.NewIterator(kv.IteratorOptions{Reverse: c.Rev})
		defer it.Close()
		it.Rewind()
		if c.N%2 == 0 {
			it.Seek([]byte(c.Key))
		}
		for i := 0; i < c.N && it.Valid(); i++ {
			_ = it.Key()
			if _, err := it.Value(); err != nil {
				return bad("Iterator.Value", err)
			}
			it.Next()
		}
	case "stat":
		s := db.Stat()
		if s.KeyNum < 0 || s.DataFileNum < 1 {
			return fmt.Errorf("Stat returned %+v", *s)
		}
	case "sync":
		return bad("Sync", db.Sync())
	case "merge":
		return bad("Merge", db.Merge(), kv.ErrMergeIsProgress, kv.ErrMergeRatioUnreached, kv.ErrMergeFileIDConflict)
	case "backup":
		dir := filepath.Join(kvh.GetEnv().Scratch, fmt.Sprintf("c09-backup-%d-%d", os.Getpid(), c09BackupSeq.Add(1)))
		err := db.Backup(dir)
		_ = os.RemoveAll(dir)
		return bad("Backup", err)
	case "batch":
		b := db.NewBatch(kv.BatchOptions{Sync: len(c.Sub)%2 == 0})
		var first error
		for _, s := range c.Sub {
			var err error
			switch s.K {
			case "bput":
				err = bad("Batch.Put", b.Put([]byte(s.Key), kvh.GenValue(uint64(s.VLen)+5, s.VLen)))
			case "bdel":
				err = bad("Batch.Delete", b.Delete([]byte(s.Key)))
			case "bget":
				_, e := b.Get([]byte(s.Key))
				err = bad("Batch.Get", e, kv.ErrKeyNotFound)
			}
			if err != nil && first == nil {
				first = err
			}
		}
		if err := bad("Commit", b.Commit()); err != nil && first == nil {
			first = err
		}
		return first
	}
	return nil
}

func raceLogSize() int64 {
	e := kvh.GetEnv()
	p := filepath.Join(e.Out, fmt.Sprintf("race-%d.%d", e.Shard, os.Getpid()))
	fi, err := os.Stat(p)
	if err != nil {
		return 0
	}
	return fi.Size()
}

func raceLogTail(from int64) string {
	e := kvh.GetEnv()
	p := filepath.Join(e.Out, fmt.Sprintf("race-%d.%d", e.Shard, os.Getpid()))
	b, err := os.ReadFile(p)
	if err != nil || int64(len(b)) <= from {
		return ""
	}
	s := string(b[from:])
	if len(s) > 5000 {
		s = s[:5000] + "…"
	}
	return s
}

// raceSignature names a report by its first two xixi-kv (or dependency) frames.
func raceSignature(report string) string {
	var frames []string
	for _, line := range strings.Split(report, "\n") {
		line = strings.TrimSpace(line)
		if strings.Contains(line, "xixi-kv") && strings.Contains(line, "(") && !strings.HasPrefix(line, "/") {
			name := strings.TrimSuffix(line, "()")
			name = name[strings.LastIndex(name, "/")+1:]
			name = strings.NewReplacer("(", "", ")", "", "*", "").Replace(name)
			frames = append(frames, name)
			if len(frames) == 2 {
				break
			}
		}
	}
	if len(frames) == 0 {
		return "data-race"
	}
	return "data-race-" + strings.Join(frames, "-")
}

func runC09(c *c09Case) (feat map[string]bool, fail *kvh.Fail) {
	feat = map[string]bool{}
	e := kvh.GetEnv()
	base := e.NewDir("c09")
	dir := filepath.Join(base, "db")
	defer func() {
		gIO.Forget(base)
		_ = os.RemoveAll(base)
	}()
	db, err := kv.Open(c.Opt.KV(dir))
	if err != nil {
		return feat, &kvh.Fail{Sig: "open-error", Msg: err.Error()}
	}
	for _, call := range c.Pre {
		if err := c09Exec(db, call); err != nil {
			_ = db.Close()
			return feat, &kvh.Fail{Sig: "internal-error", Msg: fmt.Sprintf("prehistory (single goroutine): %v", err)}
		}
	}
	if len(c.Pre) > 0 {
		if c.PreMerge {
			if err := c09Exec(db, c09Call{K: "merge"}); err != nil {
				_ = db.Close()
				return feat, &kvh.Fail{Sig: "internal-error", Msg: fmt.Sprintf("prehistory (single goroutine): %v", err)}
			}
		}
		if c.PreReopen {
			// the first reads of the goroutines hit files this process has opened but not yet read
			if err := db.Close(); err != nil {
				return feat, &kvh.Fail{Sig: "close-error", Msg: err.Error()}
			}
			if db, err = kv.Open(c.Opt.KV(dir)); err != nil {
				return feat, &kvh.Fail{Sig: "open-error", Msg: "Open after the prehistory: " + err.Error()}
			}
			feat["goroutines-start-on-restarted-db"] = true
			if c.PreMerge {
				feat["goroutines-start-on-adopted-merge"] = true
			}
		}
	}
	if c.PreBackup {
		// Backup is not one of the calls the statement mixes, but it may well lie in the past of the database the
		// goroutines use (under MMap it shrinks every file and invalidates the mapping bounds)
		bdir := filepath.Join(base, "backup")
		err := db.Backup(bdir)
		_ = os.RemoveAll(bdir)
		if err != nil {
			_ = db.Close()
			return feat, &kvh.Fail{Sig: "internal-error", Msg: fmt.Sprintf("prehistory (single goroutine): Backup: %v", err)}
		}
		feat["goroutines-start-after-a-backup"] = true
	}
	raceBefore := raceLogSize()
	var wg sync.WaitGroup
	var firstErr, firstPanic atomic.Value
	start := make(chan struct{})
	for i := range c.Progs {
		wg.Add(1)
		go func(i int) {
			defer wg.Done()
			defer func() {
				if p := recover(); p != nil {
					firstPanic.CompareAndSwap(nil, fmt.Sprintf("goroutine %d panicked: %v\n%s", i, p, debug.Stack()))
				}
			}()
			debug.SetPanicOnFault(true)
			<-start
			for _, call := range c.Progs[i] {
				if err := c09Exec(db, call); err != nil {
					firstErr.CompareAndSwap(nil, fmt.Sprintf("goroutine %d: %v", i, err))
				}
			}
		}(i)
	}
	close(start)
	done := make(chan struct{})
	go func() { wg.Wait(); close(done) }()
	if verdict, dump := waitOrDeadlock(done, "runC09.func"); verdict != "done" {
		if verdict == "deadlock" {
			msg := "all client goroutines are parked in lock/channel waits, none is runnable, and nothing changed between two inspections 10 s apart: deadlock\n" + dump[:min(len(dump), 7000)]
			path := kvh.StatsFor("C09").Violation("deadlock", c, msg)
			fmt.Printf("VIOLATION-CANDIDATE sig=deadlock replay=%s\n%s\n", path, msg)
			os.Exit(1)
		}
		fmt.Fprintf(os.Stderr, "C09 watchdog: clients still running after the limit (inconclusive)\n%s\n", dump[:min(len(dump), 4000)])
		os.Exit(2)
	}
	if p := firstPanic.Load(); p != nil {
		_ = db.Close()
		return feat, &kvh.Fail{Sig: "panic-under-concurrency", Msg: p.(string)}
	}
	if e := firstErr.Load(); e != nil {
		_ = db.Close()
		return feat, &kvh.Fail{Sig: "internal-error-under-concurrency", Msg: e.(string)}
	}
	if err := db.Close(); err != nil {
		return feat, &kvh.Fail{Sig: "close-error", Msg: err.Error()}
	}
	if after := raceLogSize(); after > raceBefore {
		rep := raceLogTail(raceBefore)
		return feat, &kvh.Fail{Sig: raceSignature(rep), Msg: "the race detector reported during this program:\n" + rep}
	}
	// measured features
	keyUsers := map[string]map[int]bool{}
	scanners, writers := map[int]bool{}, map[int]bool{}
	for i, p := range c.Progs {
		var visit func(cs []c09Call)
		visit = func(cs []c09Call) {
			for _, call := range cs {
				if call.Key != "" && call.K != "iter" {
					if keyUsers[call.Key] == nil {
						keyUsers[call.Key] = map[int]bool{}
					}
					keyUsers[call.Key][i] = true
				}
				switch call.K {
				case "listkeys", "fold", "iter", "stat":
					scanners[i] = true
					feat["scan-"+call.K] = true
				case "put", "del", "bput", "bdel":
					writers[i] = true
				case "batch":
					feat["batch"] = true
					visit(call.Sub)
				case "merge":
					feat["merge"] = true
				}
			}
		}
		visit(p)
	}
	for _, u := range keyUsers {
		if len(u) >= 2 {
			feat["shared-key"] = true
		}
	}
	for s := range scanners {
		for w := range writers {
			if s != w {
				feat["scan-while-write"] = true
			}
		}
	}
	return feat, nil
}

func TestC09(t *testing.T) {
	st := kvh.StatsFor("C09")
	st.SetRule(c09Rule,
		"a race detector only sees races on the schedules that are executed; Close and the background merge ticker are not in the statement's call list and are not mixed in; Backup is not in that list either but is mixed in at 2 % of the calls (and may end the single-threaded prehistory), because C20 promises a usable source while backups are repeated during continued use",
		"documented error sets: nil everywhere, plus ErrKeyNotFound for Get/Batch.Get and ErrMergeIsProgress / ErrMergeRatioUnreached / ErrMergeFileIDConflict for Merge; anything else (ErrIndexUpdateFailed, ErrDataFileNotFound, ErrNoEnoughSpaceForMerge, EOF/CRC errors) is an internal-inconsistency error",
		"a goroutine holding an uncommitted batch makes no other database call (API precondition)",
		"deadlock is decided from goroutine wait states, not from elapsed time: every client goroutine parked in a sync lock / channel wait, none runnable, identical at two inspections 10 s apart; a run that merely takes long (300 s limit for programs that take milliseconds) is inconclusive")
	defer finishProperty(st)
	if !raceEnabled {
		t.Fatalf("inconclusive: C09 must be built with -race")
	}
	checkCases(t, st, func(t *rapid.T) {
		c := &c09Case{Property: "C09", Kind: "c09"}
		c.Opt = kvh.GenOpt(t, "opt", kvh.OptProfile{MMapPercent: 8, FileSizes: []int64{200, 1000, 4096}})
		c.Opt.Shards = kvh.Pick(t, []int{1, 2, 16}, "shards")
		nk := 1 + kvh.U(t, 6, "nkeys")
		ng := 2 + kvh.U(t, 15, "ngoroutines")
		for i := 0; i < ng; i++ {
			var prog []c09Call
			for j, n := 0, 5+kvh.U(t, 36, "ncalls"); j < n; j++ {
				prog = append(prog, genC09Call(t, nk, false))
			}
			c.Progs = append(c.Progs, prog)
		}
		if kvh.Pct(t, 35, "prehistory") {
			for i, n := 0, 4+kvh.U(t, 24, "npre"); i < n; i++ {
				call := c09Call{K: "put", Key: c09Keys[kvh.U(t, nk, "prekey")], VLen: 1 + kvh.U(t, 300, "prevlen")}
				if kvh.Pct(t, 20, "predel") {
					call = c09Call{K: "del", Key: call.Key}
				}
				c.Pre = append(c.Pre, call)
			}
			c.PreMerge = kvh.Pct(t, 60, "premerge")
			c.PreReopen = kvh.Pct(t, 85, "prereopen")
			if kvh.Pct(t, 40, "premmap") {
				c.Opt.IO = 1
			}
			c.PreBackup = kvh.Pct(t, 30+30*int(c.Opt.IO), "prebackup")
		}
		kvh.SetInFlight(&kvh.InFlight{Property: "C09", Case: func() any { return c }})
		defer kvh.SetInFlight(nil)
		kvh.PersistCase("C09", c)
		feat, f := runC09(c)
		kvh.ClearPersisted("C09")
		if f != nil {
			report(t, st, c, f)
		}
		st.Eval(1)
		for k := range feat {
			st.Label(k)
		}
		st.Label(fmt.Sprintf("index%d", c.Opt.Index))
		if feat["shared-key"] || feat["scan-while-write"] {
			st.NonTrivial(kvh.Hash64([]byte(fmt.Sprintf("%+v", *c))))
			if st.WantSample() {
				s := map[string]any{"options": c.Opt.String(), "goroutines": len(c.Progs)}
				var first []string
				for _, call := range c.Progs[0] {
					first = append(first, fmt.Sprintf("%s %q", call.K, call.Key))
				}
				s["program_of_goroutine_0"] = first
				st.Sample(s)
			} else {
				st.Sample(nil)
			}
		}
	})
}

func init() {
	replayers["c09"] = func(_ *kvh.Case, raw []byte) *kvh.Fail {
		var c c09Case
		if err := jsonUnmarshal(raw, &c); err != nil {
			return &kvh.Fail{Sig: "harness-bad-case", Msg: err.Error()}
		}
		// schedule dependent: execute the programs repeatedly
		for i := 0; i < 30; i++ {
			if _, f := runC09(&c); f != nil {
				return f
			}
		}
		return nil
	}
}
