package harness

import (
	"fmt"
	"os"
	"path/filepath"
	"runtime/debug"
	"strings"
	"sync/atomic"
	"testing"
	"time"

	kv "github.com/XiXi-2024/xixi-kv"
	"verifharness/kvh"
)

// C13, two-client windows: the Threshold bound holds at EVERY return of a
// Put/Delete, also at the return of a call that ran while another client's
// Sync() or threshold-crossing Put was still in front of its fsync. Client A
// is parked at the hook that precedes its fsync; client B writes; if B returns
// inside A's window the acknowledged bytes beyond the synced length are
// counted from the hook shadow.

const c13wRule = "two-client windows (enumerated): Threshold x BytesPerSync {100, 4096} x fill level (acknowledged unflushed bytes 1, 10, 40 below the threshold) x A in {Sync(), a Put that crosses the threshold} parked right before its fsync x B in {Put, Delete of an existing key} x index type; oracle: at B's return (if B returns while A is parked) and after both have returned, the bytes of acknowledged Puts/Deletes beyond the synced length of their file are < BytesPerSync; non-trivial = A was parked in front of its fsync"

type c13wCase struct {
	Property string  `json:"property"`
	Kind     string  `json:"kind"`
	Opt      kvh.Opt `json:"options"`
	Slack    int     `json:"slack"` // acknowledged unflushed bytes before the window = BytesPerSync - Slack
	A        string  `json:"a"`     // sync | put
	B        string  `json:"b"`     // put | del | sync
}

//go:noinline
func c13wClientB(db *kv.DB, op string, vlen int, done chan error) {
	if op == "del" {
		done <- db.Delete([]byte("victim"))
		return
	}
	if op == "sync" {
		done <- db.Sync()
		return
	}
	done <- db.Put([]byte("b"), kvh.GenValue(5, vlen))
}

func c13wUnsynced(dir string) int64 {
	var n int64
	for p, f := range gIO.Snapshot(dir) {
		if strings.HasSuffix(p, ".data") && f.Logical > f.Synced {
			n += f.Logical - f.Synced
		}
	}
	return n
}

func runC13Window(c *c13wCase) (feat map[string]bool, fail *kvh.Fail) {
	feat = map[string]bool{}
	e := kvh.GetEnv()
	base := e.NewDir("c13w")
	dir := filepath.Join(base, "db")
	defer func() {
		gIO.Forget(base)
		_ = os.RemoveAll(base)
	}()
	db, err := kv.Open(c.Opt.KV(dir))
	if err != nil {
		return feat, &kvh.Fail{Sig: "open-error", Msg: err.Error()}
	}
	defer func() {
		func() {
			defer func() { _ = recover() }()
			_ = db.Close()
		}()
	}()
	bps := int64(c.Opt.BytesPerSync)
	// the key B deletes, made durable so that its record does not count
	if err := db.Put([]byte("victim"), []byte("v")); err != nil {
		return feat, &kvh.Fail{Sig: "put-error", Msg: err.Error()}
	}
	// a restart, so that the threshold counter starts from zero
	if err := db.Close(); err != nil {
		return feat, &kvh.Fail{Sig: "close-error", Msg: err.Error()}
	}
	if db, err = kv.Open(c.Opt.KV(dir)); err != nil {
		return feat, &kvh.Fail{Sig: "open-error", Msg: err.Error()}
	}
	// fill: one acknowledged, unflushed record of exactly bps - slack bytes
	fill := bps - int64(c.Slack)
	vlen := -1
	for v := 0; v <= int(fill); v++ {
		if int64(kvh.ChunkHeader+kvh.EncLen(1, v, 0)) == fill {
			vlen = v
			break
		}
	}
	if vlen < 0 {
		feat["fill-level-not-reachable"] = true
		return feat, nil
	}
	if err := db.Put([]byte("f"), kvh.GenValue(3, vlen)); err != nil {
		return feat, &kvh.Fail{Sig: "put-error", Msg: err.Error()}
	}
	if got := c13wUnsynced(dir); got != fill {
		// the engine flushed earlier than expected (allowed): no window to look at
		feat["fill-was-flushed"] = true
		return feat, nil
	}
	parked := make(chan struct{})
	resume := make(chan struct{})
	var armed atomic.Bool
	armed.Store(true)
	gIO.SetOnEvent(func(ev kvh.Event) {
		if ev.Kind == "sync" && strings.HasPrefix(ev.Path, dir+"/") && armed.CompareAndSwap(true, false) {
			close(parked)
			<-resume
		}
	})
	defer gIO.SetOnEvent(nil)
	before := int64(0)
	for p, f := range gIO.Snapshot(dir) {
		if strings.HasSuffix(p, ".data") {
			before += f.Logical
		}
	}
	aDone := make(chan error, 1)
	go func() {
		debug.SetPanicOnFault(true)
		if c.A == "sync" {
			aDone <- db.Sync()
			return
		}
		aDone <- db.Put([]byte("a"), kvh.GenValue(4, c.Slack+20))
	}()
	didPark := false
	select {
	case <-parked:
		didPark = true
		feat["A-parked-before-its-fsync"] = true
	case err := <-aDone:
		aDone <- err
		armed.Store(false)
		feat["A-finished-without-an-fsync"] = true
	case <-time.After(60 * time.Second):
		return feat, &kvh.Fail{Sig: "harness-timeout", Msg: "client A neither parked nor finished"}
	}
	aWrote := int64(0)
	for p, f := range gIO.Snapshot(dir) {
		if strings.HasSuffix(p, ".data") {
			aWrote += f.Logical
		}
	}
	aWrote -= before
	bDone := make(chan error, 1)
	go c13wClientB(db, c.B, c.Slack+8, bDone)
	deadline := time.Now().Add(5 * time.Second)
	bReturned := false
	var bErr error
wait:
	for {
		select {
		case bErr = <-bDone:
			bReturned = true
			break wait
		default:
		}
		if st := goroutineState("c13wClientB"); isLockWait(st) {
			feat["B-blocked-on-lock-until-A-resumed"] = true
			break wait
		}
		if time.Now().After(deadline) {
			feat["B-state-unknown"] = true
			break wait
		}
		time.Sleep(50 * time.Microsecond)
	}
	if bReturned && didPark {
		feat["B-returned-inside-A's-window"] = true
		if bErr == nil && c.B == "sync" {
			// "Sync() flushes everything written so far": a second caller may not be told so while the flush of the
			// first one has not even been issued
			if un := c13wUnsynced(dir); un > 0 {
				close(resume)
				<-aDone
				return feat, &kvh.Fail{Sig: "sync-returns-before-the-flush-under-concurrency", Msg: fmt.Sprintf("Sync() by client B returned nil while client A's Sync() had not reached its fsync yet: %d bytes written before B's call are unflushed at B's return", un)}
			}
		}
		if bErr == nil && c.B != "sync" {
			if acked := c13wUnsynced(dir) - aWrote; acked >= bps {
				close(resume)
				<-aDone
				return feat, &kvh.Fail{Sig: "threshold-exceeded-under-concurrency", Msg: fmt.Sprintf("SyncStrategy Threshold(%d): %s by client B returned while client A's %s had not reached its fsync yet, and %d bytes appended by acknowledged Puts/Deletes are unflushed at that return (%d before B)", bps, c.B, c.A, acked, fill)}
			}
		}
	}
	if didPark {
		close(resume)
	}
	select {
	case err := <-aDone:
		if err != nil {
			return feat, &kvh.Fail{Sig: "internal-error", Msg: fmt.Sprintf("client A's %s returned %v", c.A, err)}
		}
	case <-time.After(60 * time.Second):
		return feat, deadlockOrTimeout("client A did not finish after being resumed")
	}
	if !bReturned {
		select {
		case bErr = <-bDone:
		case <-time.After(60 * time.Second):
			return feat, deadlockOrTimeout("client B did not finish")
		}
	}
	if bErr != nil {
		return feat, &kvh.Fail{Sig: "internal-error", Msg: fmt.Sprintf("client B's %s returned %v", c.B, bErr)}
	}
	if acked := c13wUnsynced(dir); acked >= bps {
		return feat, &kvh.Fail{Sig: "threshold-exceeded", Msg: fmt.Sprintf("SyncStrategy Threshold(%d): after A's %s and B's %s have both returned, %d bytes appended by acknowledged Puts/Deletes are unflushed", bps, c.A, c.B, acked)}
	}
	return feat, nil
}

func c13Windows(t *testing.T, st *kvh.Stats) {
	e := kvh.GetEnv()
	n := 0
	for _, idx := range []int8{1, 2, 3} {
		for _, bps := range []uint{100, 4096} {
			for _, slack := range []int{1, 10, 40} {
				for _, a := range []string{"sync", "put"} {
					for _, b := range []string{"put", "del", "sync"} {
						if b == "sync" && a != "sync" {
							continue
						}
						n++
						if !e.Mine(n) {
							continue
						}
						c := &c13wCase{Property: "C13", Kind: "c13window", Slack: slack, A: a, B: b}
						c.Opt = kvh.Opt{Index: idx, Shards: 16, IO: 0, FileSize: 1 << 20, Sync: 2, BytesPerSync: bps}
						kvh.PersistCase("C13", c)
						feat, f := runC13Window(c)
						kvh.ClearPersisted("C13")
						if f != nil {
							if strings.HasPrefix(f.Sig, "harness") {
								st.Label("inconclusive-" + f.Sig)
								continue
							}
							report(t, st, c, f)
						}
						st.Eval(1)
						st.Label("window-template")
						for k, v := range feat {
							if v {
								st.Label(k)
							}
						}
						if feat["A-parked-before-its-fsync"] {
							st.NonTrivial(kvh.Hash64([]byte(fmt.Sprintf("c13w|%+v", *c))))
						}
					}
				}
			}
		}
	}
	st.Exhaustive("two-client sync windows: index type x BytesPerSync x fill level x A x B", int64(n))
}

func init() {
	replayers["c13window"] = func(_ *kvh.Case, raw []byte) *kvh.Fail {
		var c c13wCase
		if err := jsonUnmarshal(raw, &c); err != nil {
			return &kvh.Fail{Sig: "harness-bad-case", Msg: err.Error()}
		}
		_, f := runC13Window(&c)
		return f
	}
}
