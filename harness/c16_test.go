package harness

import (
	"bufio"
	"errors"
	"fmt"
	"io"
	"os"
	"os/exec"
	"path/filepath"
	"sort"
	"strings"
	"testing"
	"time"

	kv "github.com/XiXi-2024/xixi-kv"
	"github.com/gofrs/flock"
	"pgregory.net/rapid"
	"verifharness/kvh"
)

// C16 — a data directory has at most one open database at a time.

const c16Rule = "generated schedules (<= 20 steps) of open / close / exit / open-that-must-fail-for-another-reason (damaged rotated data file, non-numeric .data name, unsupported FileIOType) / burst-open commands addressed to 2..3 child processes (re-executed test binary, line protocol) and to two handles inside the test process, all on one directory; model = set of holders (<= 1): a sequential Open succeeds iff nobody holds the directory, otherwise it returns ErrDatabaseIsUsing and leaves names and bytes of the directory unchanged; in a burst exactly one Open succeeds when nobody held it; after Close, after process exit and after an Open that failed for another reason an independent flock.TryLock on <dir>/.lock succeeds and a valid Open succeeds again; non-trivial = >= 1 rejection while held and >= 1 successful Open after a release; distinct = hash of the schedule"

type c16Step struct {
	C     string `json:"c"`               // open close exit failopen burst
	Actor int    `json:"actor"`           // 0,1 = in-process handles; 2.. = child processes
	Kind  string `json:"kind,omitempty"`  // failopen: corrupt | badname | badio
	Width int    `json:"width,omitempty"` // burst
}

type c16Case struct {
	Property string    `json:"property"`
	Kind     string    `json:"kind"`
	Children int       `json:"children"`
	Steps    []c16Step `json:"steps"`
	// MMap: every actor opens with the memory-mapped back-end (open files stay pre-extended until Close has shrunk them)
	MMap bool `json:"mmap,omitempty"`
}

// ---- child side

func init() {
	childEntries["c16actor"] = func() int {
		dir := os.Getenv("VERIF_CHILD_ARG")
		var db, stale *kv.DB
		in := bufio.NewReader(os.Stdin)
		for {
			line, err := in.ReadString('\n')
			if err != nil {
				return 0
			}
			cmd := strings.Fields(strings.TrimSpace(line))
			if len(cmd) == 0 {
				continue
			}
			switch cmd[0] {
			case "open":
				o := kvh.DefaultOpt()
				if len(cmd) > 1 && cmd[1] == "badio" {
					o.IO = 9
				}
				if len(cmd) > 1 && cmd[1] == "mmap" {
					o.IO = 1
				}
				d, err := c16Open(o, dir)
				if err == nil {
					if db != nil {
						_ = d.Close()
						fmt.Println("err second-handle-in-child")
						continue
					}
					db = d
				}
				fmt.Println("res", kvh.ErrName(err))
			case "close":
				if db != nil {
					err := db.Close()
					stale = db
					db = nil
					fmt.Println("res", kvh.ErrName(err))
				} else {
					fmt.Println("res not-open")
				}
			case "merge":
				// the holder writes a little and runs Merge: a finished, not yet adopted merge now sits beside the directory
				if db != nil {
					_ = db.Put([]byte("m1"), kvh.GenValue(7, 30))
					_ = db.Delete([]byte("k0"))
					fmt.Println("res", kvh.ErrName(db.Merge()))
				} else {
					fmt.Println("res not-open")
				}
			case "reclose":
				// a redundant Close of a handle that was closed before (defer + explicit Close)
				if stale != nil {
					err := c16Reclose(stale)
					fmt.Println("res", kvh.ErrName(err))
				} else {
					fmt.Println("res no-stale-handle")
				}
			case "exit":
				fmt.Println("res bye")
				os.Exit(0) // without Close: the OS releases the lock
			}
		}
	}
}

func c16Reclose(db *kv.DB) (err error) {
	defer func() {
		if p := recover(); p != nil {
			err = fmt.Errorf("panic: %v", p)
		}
	}()
	return db.Close()
}

func c16Open(o kvh.Opt, dir string) (db *kv.DB, err error) {
	defer func() {
		if p := recover(); p != nil {
			err = fmt.Errorf("panic: %v", p)
		}
	}()
	return kv.Open(o.KV(dir))
}

// ---- parent side

type c16Child struct {
	cmd *exec.Cmd
	in  io.WriteCloser
	out *bufio.Reader
}

func (c *c16Child) send(s string) error {
	_, err := io.WriteString(c.in, s+"\n")
	return err
}

func (c *c16Child) recv() (string, error) {
	type res struct {
		s   string
		err error
	}
	ch := make(chan res, 1)
	go func() {
		s, err := c.out.ReadString('\n')
		ch <- res{strings.TrimSpace(s), err}
	}()
	select {
	case r := <-ch:
		return r.s, r.err
	case <-time.After(120 * time.Second):
		return "", errors.New("child did not answer within 120 s")
	}
}

type c16World struct {
	dir      string
	children []*c16Child
	handles  [2]*kv.DB // in-process handles (actors 0 and 1)
	stale    [2]*kv.DB // handles that were closed before
	staleKid map[int]bool
	holder   int    // -1 none
	mmap     bool   // every actor opens with the memory-mapped back-end
	damaged  string // pending damage kind ("" none)
	rejected int
	reopened int
	released bool
	labels   map[string]int
}

// dirSnapshot fingerprints the data directory and its sibling merge directory (names, sizes, contents).
func dirSnapshot(dir string) string {
	var parts []string
	for _, d := range []string{dir, dir + "-merge"} {
		ents, err := os.ReadDir(d)
		if err != nil {
			parts = append(parts, filepath.Base(d)+":absent")
			continue
		}
		for _, e := range ents {
			// a holder using MMap keeps its files extended to 512 MiB (sparse): size plus the first MiB stand for them
			var b []byte
			size := int64(-1)
			if fd, err := os.Open(filepath.Join(d, e.Name())); err == nil {
				if fi, err := fd.Stat(); err == nil {
					size = fi.Size()
				}
				b, _ = io.ReadAll(io.LimitReader(fd, 1<<20))
				fd.Close()
			}
			parts = append(parts, fmt.Sprintf("%s/%s:%d:%x", filepath.Base(d), e.Name(), size, kvh.Hash64(b)))
		}
	}
	sort.Strings(parts)
	return strings.Join(parts, ";")
}

func (w *c16World) lockFree() *kvh.Fail {
	fl := flock.New(filepath.Join(w.dir, ".lock"))
	ok, err := fl.TryLock()
	if err != nil {
		return &kvh.Fail{Sig: "harness-flock", Msg: err.Error()}
	}
	if !ok {
		return &kvh.Fail{Sig: "lock-not-released", Msg: "nobody holds the directory, yet an independent flock.TryLock on <dir>/.lock fails"}
	}
	_ = fl.Unlock()
	_ = fl.Close()
	return nil
}

// open asks one actor to open; returns the error name.
func (w *c16World) open(actor int, variant string) (string, *kvh.Fail) {
	if actor < 2 {
		o := kvh.DefaultOpt()
		if w.mmap {
			o.IO = 1
		}
		if variant == "badio" {
			o.IO = 9
		}
		db, err := c16Open(o, w.dir)
		if err == nil {
			if w.handles[actor] != nil {
				_ = db.Close()
				return "", &kvh.Fail{Sig: "harness", Msg: "handle already open"}
			}
			w.handles[actor] = db
		}
		return kvh.ErrName(err), nil
	}
	c := w.children[actor-2]
	cmd := "open"
	if w.mmap {
		cmd = "open mmap"
	}
	if variant == "badio" {
		cmd = "open badio"
	}
	if err := c.send(cmd); err != nil {
		return "", &kvh.Fail{Sig: "harness-child", Msg: err.Error()}
	}
	s, err := c.recv()
	if err != nil {
		return "", &kvh.Fail{Sig: "harness-child", Msg: err.Error()}
	}
	return strings.TrimPrefix(s, "res "), nil
}

func (w *c16World) step(s c16Step) *kvh.Fail {
	nActors := 2 + len(w.children)
	a := s.Actor % nActors
	switch s.C {
	case "open":
		if w.holder == a {
			return nil // the actor already holds it; nothing to ask
		}
		if a >= 2 && w.children[a-2] == nil {
			return nil
		}
		var before string
		if w.holder >= 0 {
			before = dirSnapshot(w.dir)
		}
		res, f := w.open(a, "")
		if f != nil {
			return f
		}
		if w.holder >= 0 {
			if res != "ErrDatabaseIsUsing" {
				return &kvh.Fail{Sig: "second-open-not-rejected", Msg: fmt.Sprintf("actor %d holds the directory; Open by actor %d returned %s, want ErrDatabaseIsUsing", w.holder, a, res)}
			}
			if after := dirSnapshot(w.dir); after != before {
				return &kvh.Fail{Sig: "rejected-open-touched-directory", Msg: fmt.Sprintf("a rejected Open changed the directory:\n before %s\n after  %s", before, after)}
			}
			w.rejected++
			if (a >= 2) != (w.holder >= 2) || a >= 2 {
				w.labels["rejection-across-processes"]++
			} else {
				w.labels["rejection-inside-one-process"]++
			}
			return nil
		}
		if res != "ok" {
			return &kvh.Fail{Sig: "open-of-free-directory-fails", Msg: fmt.Sprintf("nobody holds the directory; Open by actor %d returned %s", a, res)}
		}
		w.holder = a
		if w.released {
			w.reopened++
		}
	case "close":
		if w.holder != a {
			return nil
		}
		if a < 2 {
			err := w.handles[a].Close()
			w.stale[a] = w.handles[a]
			w.handles[a] = nil
			if err != nil {
				return &kvh.Fail{Sig: "close-error", Msg: err.Error()}
			}
		} else {
			c := w.children[a-2]
			_ = c.send("close")
			if r, err := c.recv(); err != nil || r != "res ok" {
				return &kvh.Fail{Sig: "close-error", Msg: fmt.Sprintf("child close: %q %v", r, err)}
			}
			if w.staleKid == nil {
				w.staleKid = map[int]bool{}
			}
			w.staleKid[a] = true
		}
		w.holder = -1
		w.released = true
		w.labels["release-by-close"]++
		return w.lockFree()
	case "merge":
		// the current holder runs Merge, leaving a finished merge to be adopted by the next successful Open
		if w.holder < 0 {
			return nil
		}
		if w.holder < 2 {
			db := w.handles[w.holder]
			_ = db.Put([]byte("m1"), kvh.GenValue(7, 30))
			_ = db.Delete([]byte("k0"))
			if err := db.Merge(); err != nil {
				return nil
			}
		} else {
			c := w.children[w.holder-2]
			_ = c.send("merge")
			if r, err := c.recv(); err != nil || r != "res ok" {
				return nil
			}
		}
		w.labels["holder-finished-a-merge-(pending-adoption)"]++
	case "twoclose":
		// the in-process holder is closed from two goroutines at overlapping times (a signal handler next to the deferred
		// Close of main) while a batch of a third one keeps the first Close waiting. A Close that RETURNS nil says the
		// directory is released: from the first such return on an independent flock must succeed
		if w.holder < 0 || w.holder >= 2 || w.mmap {
			return nil
		}
		db := w.handles[w.holder]
		b := db.NewBatch(kv.DefaultBatchOptions)
		_ = b.Put([]byte("tc"), kvh.GenValue(9, 20))
		done := make(chan error, 2)
		go func() { done <- c16Reclose(db) }()
		time.Sleep(2 * time.Millisecond)
		go func() { done <- c16Reclose(db) }()
		var early *kvh.Fail
		select {
		case err := <-done:
			// a Close returned although the batch still holds the database
			done <- err
			if err == nil {
				fl := flock.New(filepath.Join(w.dir, ".lock"))
				if ok, ferr := fl.TryLock(); ferr == nil && !ok {
					early = &kvh.Fail{Sig: "close-returned-before-the-lock-was-released", Msg: "of two overlapping Close calls one returned nil while the other had not done its work yet (it waits behind an open batch): the directory is still locked, a following Open is refused"}
				} else if ferr == nil {
					_ = fl.Unlock()
				}
				_ = fl.Close()
			}
		case <-time.After(30 * time.Millisecond):
		}
		_ = b.Commit()
		for i := 0; i < 2; i++ {
			select {
			case <-done:
			case <-time.After(60 * time.Second):
				return &kvh.Fail{Sig: "harness-timeout", Msg: "overlapping Close calls did not return"}
			}
		}
		w.labels["two-overlapping-Close-calls"]++
		w.stale[w.holder] = db
		w.handles[w.holder] = nil
		w.holder = -1
		w.released = true
		if early != nil {
			return early
		}
		return w.lockFree()
	case "mergeclose":
		// the in-process holder's shutdown path calls Close while its own Merge is under way (from the merge.rotated
		// point: Merge holds no lock there). Whatever Close answers decides who holds the directory: nil - released;
		// an error - the handle is still open, so the lock must still be held
		if w.holder < 0 || w.holder >= 2 || w.mmap {
			return nil
		}
		db := w.handles[w.holder]
		_ = db.Put([]byte("m2"), kvh.GenValue(8, 30))
		var closeErr error
		fired := false
		gIO.SetOnPoint(func(name string, _ []byte) {
			if name == "merge.rotated" && !fired {
				fired = true
				closeErr = c16Reclose(db)
			}
		})
		func() {
			defer func() { _ = recover() }()
			_ = db.Merge()
		}()
		gIO.SetOnPoint(nil)
		if !fired {
			return nil
		}
		w.labels["close-called-while-the-holder's-merge-is-running"]++
		if closeErr == nil {
			w.stale[w.holder] = db
			w.handles[w.holder] = nil
			w.holder = -1
			w.released = true
			return w.lockFree()
		}
		// refused: still the holder
		fl := flock.New(filepath.Join(w.dir, ".lock"))
		ok, err := fl.TryLock()
		if err == nil && ok {
			_ = fl.Unlock()
			_ = fl.Close()
			return &kvh.Fail{Sig: "refused-close-released-the-lock", Msg: fmt.Sprintf("Close() during the holder's Merge returned %v - the handle is still open - yet an independent flock.TryLock on <dir>/.lock succeeds: the directory can be opened a second time", closeErr)}
		}
		_ = fl.Close()
	case "reclose":
		// a redundant Close on a handle this actor closed earlier; it must not disturb whoever holds the directory now
		if w.holder == a {
			return nil
		}
		if a < 2 {
			if w.stale[a] == nil {
				return nil
			}
			if err := c16Reclose(w.stale[a]); err != nil {
				return &kvh.Fail{Sig: "second-close-fails", Msg: fmt.Sprintf("a second Close of an already closed handle returned %v", err)}
			}
		} else {
			if w.children[a-2] == nil || !w.staleKid[a] {
				return nil
			}
			c := w.children[a-2]
			_ = c.send("reclose")
			if r, err := c.recv(); err != nil || r != "res ok" {
				return &kvh.Fail{Sig: "second-close-fails", Msg: fmt.Sprintf("child: second Close of an already closed handle: %q %v", r, err)}
			}
		}
		w.labels["redundant-close-of-stale-handle"]++
		if w.holder >= 0 {
			w.labels["redundant-close-while-another-actor-holds"]++
		}
	case "closeburst":
		// the holder closes while several others try to open: at most one of them may succeed
		if w.holder < 0 {
			return nil
		}
		h := w.holder
		var idx []int
		for i := 0; i < nActors && len(idx) < s.Width; i++ {
			b := (a + i) % nActors
			if b == h || (b < 2 && w.handles[b] != nil) || (b >= 2 && w.children[b-2] == nil) {
				continue
			}
			idx = append(idx, b)
		}
		if len(idx) < 2 {
			return nil
		}
		type out struct {
			actor int
			res   string
			f     *kvh.Fail
		}
		ch := make(chan out, len(idx))
		closed := make(chan *kvh.Fail, 1)
		go func() { closed <- w.step(c16Step{C: "close", Actor: h}) }()
		for _, b := range idx {
			go func(b int) {
				r, f := w.open(b, "")
				ch <- out{b, r, f}
			}(b)
		}
		oks := []int{}
		for range idx {
			o := <-ch
			if o.f != nil {
				<-closed
				return o.f
			}
			switch o.res {
			case "ok":
				oks = append(oks, o.actor)
			case "ErrDatabaseIsUsing":
			default:
				<-closed
				return &kvh.Fail{Sig: "burst-open-unexpected-error", Msg: fmt.Sprintf("Open racing with a Close returned %s", o.res)}
			}
		}
		if f := <-closed; f != nil && f.Sig != "lock-not-released" {
			return f
		}
		w.labels["close-racing-with-opens"]++
		if len(oks) > 1 {
			return &kvh.Fail{Sig: "burst-open-not-exclusive", Msg: fmt.Sprintf("while actor %d closed, %d racing Opens succeeded (%v): two databases are open on one directory", h, len(oks), oks)}
		}
		w.holder = -1
		if len(oks) == 1 {
			w.holder = oks[0]
			w.reopened++
		}
	case "exit":
		if a < 2 || w.children[a-2] == nil {
			return nil
		}
		c := w.children[a-2]
		if w.mmap && w.holder == a {
			// a holder that dies without Close leaves its MMap files pre-extended, and the next Open fails on them:
			// that is the recorded finding mmap-crash-image-open (C03), not a locking question - the holder closes first
			_ = c.send("close")
			_, _ = c.recv()
			w.labels["excluded-exit-without-close-under-mmap"]++
		}
		_ = c.send("exit")
		_, _ = c.recv()
		_ = c.cmd.Wait()
		w.children[a-2] = nil
		if w.holder == a {
			w.holder = -1
			w.released = true
			w.labels["release-by-process-exit"]++
			return w.lockFree()
		}
	case "failopen":
		if w.holder >= 0 {
			return nil // only staged on a free directory (the holder's files are not touched)
		}
		if a >= 2 && w.children[a-2] == nil {
			return nil
		}
		// stage the damage
		var undo func()
		switch s.Kind {
		case "badname":
			p := filepath.Join(w.dir, "notanumber.data")
			_ = os.MkdirAll(w.dir, 0o755)
			_ = os.WriteFile(p, []byte("x"), 0o644)
			undo = func() { _ = os.Remove(p) }
		case "corrupt":
			// a rotated file (lower id than the newest) full of garbage
			ents, _ := os.ReadDir(w.dir)
			hasData := false
			for _, e := range ents {
				if strings.HasSuffix(e.Name(), ".data") {
					hasData = true
				}
			}
			if !hasData {
				return nil
			}
			if _, err := os.Stat(w.dir + "-merge"); err == nil {
				// a pending merge will replace the rotated files at the next Open, so damaging one of them proves
				// nothing; the hint file of a finished merge is read by that Open instead (after the adoption has
				// moved it into the data directory)
				hint := filepath.Join(w.dir+"-merge", fmt.Sprintf("%09d.hint", 0))
				marker := filepath.Join(w.dir+"-merge", fmt.Sprintf("%09d.merge-finished", 0))
				orig, err := os.ReadFile(hint)
				if fi, merr := os.Stat(marker); err != nil || merr != nil || fi.Size() == 0 || len(orig) < 16 {
					return nil
				}
				bad := append([]byte(nil), orig...)
				bad[8] ^= 0xff
				_ = os.WriteFile(hint, bad, 0o644)
				moved := filepath.Join(w.dir, filepath.Base(hint))
				s.Kind = "corrupt-hint"
				undo = func() {
					// the failed Open may or may not have adopted the merge already
					if _, err := os.Stat(moved); err == nil {
						_ = os.WriteFile(moved, orig, 0o644)
					}
					if _, err := os.Stat(hint); err == nil {
						_ = os.WriteFile(hint, orig, 0o644)
					}
				}
				break
			}
			// move every data file up by making a garbage file with id 0 only if id 0 is free is not possible; damage the lowest file instead
			var lowest, newest string
			for _, e := range ents {
				if strings.HasSuffix(e.Name(), ".data") && e.Name() > newest {
					newest = e.Name()
				}
			}
			for _, e := range ents {
				fi, _ := e.Info()
				if strings.HasSuffix(e.Name(), ".data") && e.Name() != newest && fi != nil && fi.Size() >= 16 && (lowest == "" || e.Name() < lowest) {
					lowest = e.Name()
				}
			}
			if lowest == "" {
				return nil
			}
			p := filepath.Join(w.dir, lowest)
			orig, _ := os.ReadFile(p)
			if len(orig) < 16 {
				return nil
			}
			bad := append([]byte(nil), orig...)
			bad[8] ^= 0xff // payload byte of the first chunk: checksum mismatch
			if s.Width == 1 {
				// a rotated file that ends in the middle of a chunk
				bad = orig[:len(orig)-3]
				s.Kind = "corrupt-truncated"
			}
			_ = os.WriteFile(p, bad, 0o644)
			undo = func() { _ = os.WriteFile(p, orig, 0o644) }
		case "badio":
			undo = func() {}
		default:
			return nil
		}
		variant := ""
		if s.Kind == "badio" {
			variant = "badio"
		}
		res, f := w.open(a, variant)
		if f != nil {
			undo()
			return f
		}
		if res == "ok" {
			// the staged problem did not make Open fail (e.g. unsupported I/O type on an empty directory is still an error; anything else is unexpected)
			undo()
			return &kvh.Fail{Sig: "harness-failopen-succeeded", Msg: fmt.Sprintf("Open with staged %s unexpectedly succeeded", s.Kind)}
		}
		if res == "ErrDatabaseIsUsing" {
			undo()
			return &kvh.Fail{Sig: "open-of-free-directory-fails", Msg: fmt.Sprintf("nobody holds the directory; Open (staged %s) returned ErrDatabaseIsUsing", s.Kind)}
		}
		w.labels["failed-open-"+s.Kind]++
		undo()
		// the failed Open must have released the lock: independent TryLock and a valid Open by the same actor
		if f := w.lockFree(); f != nil {
			f.Msg = fmt.Sprintf("after an Open that failed with %q: %s", res, f.Msg)
			f.Sig = "failed-open-keeps-lock"
			return f
		}
		res2, f := w.open(a, "")
		if f != nil {
			return f
		}
		if res2 != "ok" {
			return &kvh.Fail{Sig: "failed-open-keeps-lock", Msg: fmt.Sprintf("after an Open that failed with %q and after the cause was repaired, Open by the same actor returns %s", res, res2)}
		}
		w.holder = a
		w.released = true
		w.reopened++
	case "burst":
		// several actors open at the same time
		var idx []int
		for i := 0; i < nActors && len(idx) < s.Width; i++ {
			b := (a + i) % nActors
			if b == w.holder || (b < 2 && w.handles[b] != nil) || (b >= 2 && w.children[b-2] == nil) {
				continue
			}
			idx = append(idx, b)
		}
		if len(idx) < 2 {
			return nil
		}
		type out struct {
			actor int
			res   string
			f     *kvh.Fail
		}
		ch := make(chan out, len(idx))
		for _, b := range idx {
			go func(b int) {
				r, f := w.open(b, "")
				ch <- out{b, r, f}
			}(b)
		}
		oks := []int{}
		for range idx {
			o := <-ch
			if o.f != nil {
				return o.f
			}
			switch o.res {
			case "ok":
				oks = append(oks, o.actor)
			case "ErrDatabaseIsUsing":
			default:
				return &kvh.Fail{Sig: "burst-open-unexpected-error", Msg: fmt.Sprintf("racing Open by actor %d returned %s", o.actor, o.res)}
			}
		}
		w.labels[fmt.Sprintf("burst-width-%d", len(idx))]++
		if w.holder >= 0 {
			if len(oks) > 0 {
				return &kvh.Fail{Sig: "second-open-not-rejected", Msg: fmt.Sprintf("actor %d holds the directory, yet racing Opens by %v succeeded", w.holder, oks)}
			}
			w.rejected += len(idx)
			return nil
		}
		if len(oks) != 1 {
			return &kvh.Fail{Sig: "burst-open-not-exclusive", Msg: fmt.Sprintf("%d actors opened a free directory at the same time: %d succeeded (%v), want exactly 1", len(idx), len(oks), oks)}
		}
		w.holder = oks[0]
		w.rejected += len(idx) - 1
		if w.released {
			w.reopened++
		}
	}
	return nil
}

func runC16(c *c16Case) (w *c16World, fail *kvh.Fail) {
	e := kvh.GetEnv()
	base := e.NewDir("c16")
	w = &c16World{dir: filepath.Join(base, "db"), holder: -1, labels: map[string]int{}, mmap: c.MMap}
	if c.MMap {
		w.labels["actors-use-mmap"]++
	}
	exe, err := os.Executable()
	if err != nil {
		return w, &kvh.Fail{Sig: "harness", Msg: err.Error()}
	}
	defer func() {
		for i := range w.handles {
			if w.handles[i] != nil {
				_ = w.handles[i].Close()
			}
		}
		for _, ch := range w.children {
			if ch != nil {
				_ = ch.in.Close()
				_ = ch.cmd.Process.Kill()
				_ = ch.cmd.Wait()
			}
		}
		gIO.Forget(base)
		_ = os.RemoveAll(base)
	}()
	// pre-populate with two files so that "corrupt" has a rotated file to damage (half of the cases start from a fresh directory)
	if len(c.Steps) > 0 && c.Steps[0].Actor%2 == 0 {
		o := kvh.DefaultOpt()
		o.FileSize = 100
		db, err := kv.Open(o.KV(w.dir))
		if err != nil {
			return w, &kvh.Fail{Sig: "open-error", Msg: err.Error()}
		}
		for i := 0; i < 4; i++ {
			_ = db.Put([]byte(fmt.Sprintf("k%d", i)), kvh.GenValue(uint64(i), 60))
		}
		if err := db.Close(); err != nil {
			return w, &kvh.Fail{Sig: "close-error", Msg: err.Error()}
		}
		w.labels["directory-with-history"]++
	} else {
		w.labels["fresh-directory"]++
	}
	for i := 0; i < c.Children; i++ {
		cmd := exec.Command(exe)
		cmd.Env = append(os.Environ(), "VERIF_CHILD=c16actor", "VERIF_CHILD_ARG="+w.dir)
		in, _ := cmd.StdinPipe()
		out, _ := cmd.StdoutPipe()
		cmd.Stderr = os.Stderr
		if err := cmd.Start(); err != nil {
			return w, &kvh.Fail{Sig: "harness-child", Msg: err.Error()}
		}
		w.children = append(w.children, &c16Child{cmd: cmd, in: in, out: bufio.NewReader(out)})
	}
	for i, s := range c.Steps {
		if f := w.step(s); f != nil {
			f.Msg = fmt.Sprintf("step %d %+v: %s", i, s, f.Msg)
			return w, f
		}
	}
	return w, nil
}

func TestC16(t *testing.T) {
	st := kvh.StatsFor("C16")
	st.SetRule(c16Rule,
		"actors never issue a command while another command of the same actor is outstanding; the harness damages files only while nobody holds the directory",
		"child processes are re-executions of the test binary talking a line protocol on stdin/stdout; a child that does not answer within 120 s makes the run inconclusive, not a violation")
	defer finishProperty(st)
	checkCases(t, st, func(t *rapid.T) {
		c := &c16Case{Property: "C16", Kind: "c16", Children: 2 + kvh.U(t, 2, "children"), MMap: kvh.Pct(t, 35, "mmap")}
		n := 4 + kvh.U(t, 17, "nsteps")
		for i := 0; i < n; i++ {
			s := c16Step{Actor: kvh.U(t, 5, "actor")}
			x := kvh.U(t, 100, "kind")
			switch {
			case x < 42:
				s.C = "open"
			case x < 66:
				s.C = "close"
			case x < 70:
				s.C = "exit"
			case x < 74:
				s.C = "merge"
			case x < 75:
				s.C = "mergeclose"
			case x < 76:
				s.C = "twoclose"
			case x < 80:
				s.C = "reclose"
			case x < 84:
				s.C = "closeburst"
				s.Width = 2 + kvh.U(t, 3, "cwidth")
			case x < 92:
				s.C = "failopen"
				s.Kind = kvh.Pick(t, []string{"corrupt", "corrupt", "badname", "badio"}, "failkind")
				if s.Kind == "corrupt" && kvh.Pct(t, 35, "truncated") {
					s.Width = 1
				}
			default:
				s.C = "burst"
				s.Width = 2 + kvh.U(t, 3, "width")
			}
			c.Steps = append(c.Steps, s)
		}
		if c.Steps[0].Actor%2 == 1 && kvh.Pct(t, 60, "freshburst") {
			// racing Opens on a directory that does not exist yet
			c.Steps[0].C, c.Steps[0].Width = "burst", 3+kvh.U(t, 2, "fbwidth")
		}
		w, f := runC16(c)
		if f != nil {
			if strings.HasPrefix(f.Sig, "harness") {
				t.Fatalf("inconclusive harness problem: %s", f.Msg)
			}
			report(t, st, c, f)
		}
		st.Eval(1)
		for k, n := range w.labels {
			st.LabelN(k, int64(n))
		}
		if w.rejected > 0 && w.reopened > 0 {
			st.NonTrivial(kvh.Hash64([]byte(fmt.Sprintf("%+v", *c))))
			if st.WantSample() {
				st.Sample(c)
			} else {
				st.Sample(nil)
			}
		}
	})
}

func init() {
	replayers["c16"] = func(_ *kvh.Case, raw []byte) *kvh.Fail {
		var c c16Case
		if err := jsonUnmarshal(raw, &c); err != nil {
			return &kvh.Fail{Sig: "harness-bad-case", Msg: err.Error()}
		}
		// burst steps sample the OS scheduler: execute the schedule a few times
		for i := 0; i < 5; i++ {
			if _, f := runC16(&c); f != nil {
				return f
			}
		}
		return nil
	}
}
