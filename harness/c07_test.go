package harness

import (
	"testing"

	"pgregory.net/rapid"
	"verifharness/kvh"
)

// C07 — a crash during merge or during merge adoption never loses or
// resurrects data.

var c07Profile = &kvh.GenProfile{
	Weights: map[string]int{
		"put": 38, "del": 12, "batch": 10, "merge": 22, "wipe": 5, "reopen": 14, "sync": 2, "get": 1,
	},
	MaxBatchOps: 4,
	Big:         true,
	OptProfile:  kvh.OptProfile{NoMMap: true, FileSizes: []int64{200, 1000, 4096, 40000, 1 << 20}},
}

const c07Rule = "histories as C06 (several merges, restarts with other file-size limits so that the output needs fewer or more files; no racing writes) x level 1: process-crash image at every intercepted I/O, directory operation and scan point of the run, in particular of Merge() x level 2: for every image whose Open changes the directory (merge adoption: remove/rename/remove-all; file creation; tail truncation) a crash image before each such operation of that Open x level 3: the same for the retry Open of each level-2 image (thorough: all, quick: <= 2 per Open); oracle: every image at every level opens without error or panic, level-1 images equal the model after an admissible prefix (Merge changes nothing), level-2/3 images recover to exactly the mapping the uninterrupted recovery of their parent image gave, and opening any recovered image a second time shows the same mapping; non-trivial = image frozen inside Merge after its rotation, or an image of a crash during an adopting Open; distinct = hash of (case, event path)"

func c07Setup(x *crashExec) {
	x.nestedDepth = 2
	x.nestedCreates = true
	x.nonTrivial = func(x *crashExec, inst *kvh.Instant, cuts map[string]int64) bool {
		if inst.InFlight && inst.OpKind == "merge" && inst.Event.Kind != "return" {
			x.cs.labels["level-1-image-inside-merge-before-"+inst.Event.Kind+phase(inst)]++
			return true
		}
		return false
	}
}

func phase(inst *kvh.Instant) string {
	p := inst.Event.Path
	switch {
	case inst.Event.Kind == "point":
		return ":" + inst.Event.Name
	case len(p) > 5 && p[len(p)-5:] == ".hint":
		return ":hint-file"
	case len(p) > 16 && p[len(p)-16:] == ".merge-finished":
		return ":marker"
	}
	return ""
}

func init() { crashSetups["C07"] = c07Setup }

func TestC07(t *testing.T) {
	st := kvh.StatsFor("C07")
	st.SetRule(c07Rule,
		"process crash only, as the statement says; a remove-all of the merge directory is one operation of the engine and is treated as atomic",
		"standard I/O (MMap crash images are the known finding recorded under C03)",
		"evaluations counts opened images (all levels)")
	defer finishProperty(st)
	checkCases(t, st, func(t *rapid.T) { c07Run(t, st) })
}

func c07Run(t *rapid.T, st *kvh.Stats) {
	e := kvh.GetEnv()
	c := &crashCase{Property: "C07", Kind: "crash", MaxCuts: 1}
	c.Opt = kvh.GenOpt(t, "opt", c07Profile.OptProfile)
	c.SelSeed = uint64(kvh.U(t, 1<<16, "selseed"))
	c.SelPct = 100
	if !e.Thorough() {
		c.SelPct = 45
		c.ImgCap = 1200
	}
	c.NoPowerLoss = true
	x, f := newCrashExec(c, st, c07Setup)
	if f != nil {
		report(t, st, c, f)
	}
	defer x.close()
	gIO.Points = true
	defer func() { gIO.Points = false }()
	pool := kvh.GenKeyPool(t, false)
	t.Repeat(map[string]func(*rapid.T){
		"op": func(t *rapid.T) {
			op := kvh.GenOp(t, x.r, pool, c07Profile)
			if f, spec := x.step(op, true); f != nil {
				report(t, st, c.pinned(spec), f)
			}
		},
	})
	x.flushStats(true)
}
