package harness

import (
	"bytes"
	"fmt"
	"os"
	"path/filepath"
	"sort"
	"strings"
	"testing"

	"pgregory.net/rapid"
	"verifharness/kvh"
)

// C14 — results are independent of index type, shard count, I/O type, limits
// and sync strategy: one op list is executed in lock-step under three
// configurations and the transcripts are compared.

const c14Rule = "one generated op list (C01/C02/C10 ops incl. errors, iterator sessions, batches, merges, reopens) is executed in lock-step under a baseline and two other generated configurations; every return value and error (by sentinel), every iteration order and every post-reopen observation is written to a transcript and the transcripts must be equal; in 'bytes' mode (no batches, no merges, equal DataFileSize) the data-file bytes after Close must be equal too; non-trivial = >= 1 overwrite/delete and >= 1 ordered enumeration on a configuration triple that differs in >= 1 dimension; distinct = hash of (configurations, ops)"

var c14Profile = &kvh.GenProfile{
	Weights: map[string]int{
		"put": 36, "del": 12, "get": 8, "batch": 10, "merge": 3, "reopen": 6, "listkeys": 5, "fold": 4, "stat": 2, "emptykey": 2, "iter": 10, "sync": 1,
	},
	MaxBatchOps: 6,
	Big:         true,
	IterCalls:   12,
	IterWrites:  true,
}

var c14BytesProfile = &kvh.GenProfile{
	Weights: map[string]int{
		"put": 46, "del": 14, "get": 6, "reopen": 6, "listkeys": 5, "fold": 3, "emptykey": 2, "iter": 8, "sync": 2,
	},
	Big:        true,
	IterCalls:  10,
	IterWrites: true,
}

type c14Case struct {
	Property string    `json:"property"`
	Kind     string    `json:"kind"`
	Opts     []kvh.Opt `json:"configs"`
	Ops      []kvh.Op  `json:"ops"`
	Bytes    bool      `json:"bytesMode"`
	// SameShards: the three configurations use the three index types at one shard count, now and after every
	// reopen; iterator sessions then also seek backwards
	SameShards bool `json:"sameShards,omitempty"`
}

func TestC14(t *testing.T) {
	st := kvh.StatsFor("C14")
	st.SetRule(c14Rule,
		"layout-describing outputs (Stat sizes, DataFileNum, Merge's error value) are not part of the transcript",
		"file bytes are only compared for batch-free (time-based batch ids) and merge-free (map-order output) workloads with equal DataFileSize",
		"each of the three runs is additionally compared with the reference map at every step")
	defer finishProperty(st)
	checkCases(t, st, func(t *rapid.T) { c14Run(t, st) })
}

type c14Exec struct {
	runners []*kvh.Runner
	trs     []*[]string
	c       *c14Case
}

func newC14Exec(c *c14Case) (*c14Exec, *kvh.Fail) {
	x := &c14Exec{c: c}
	for _, o := range c.Opts {
		r, f := kvh.NewRunner("C14", o, gIO)
		if f != nil {
			x.cleanup()
			return nil, f
		}
		tr := []string{}
		r.Transcript = &tr
		// the caller reuses one key and one value buffer, as a real caller may (C15): an index
		// implementation that keeps the caller's slice behaves differently from one that copies
		r.Poison = kvh.NewPoisonBufs()
		x.runners = append(x.runners, r)
		x.trs = append(x.trs, &tr)
	}
	return x, nil
}

func (x *c14Exec) cleanup() {
	for _, r := range x.runners {
		r.Cleanup()
	}
}

// step executes op on every configuration and compares the new transcript lines.
func (x *c14Exec) step(op kvh.Op) *kvh.Fail {
	x.c.Ops = append(x.c.Ops, op)
	before := make([]int, len(x.runners))
	for i, r := range x.runners {
		before[i] = len(*x.trs[i])
		o := op
		if op.K == "reopen" && i > 0 && len(op.OptN) >= i {
			oo := op.OptN[i-1]
			o.Opt = &oo
		}
		if f := r.Step(o); f != nil {
			f.Msg = fmt.Sprintf("configuration %d (%s): %s", i, r.Opt, f.Msg)
			return f
		}
	}
	base := (*x.trs[0])[before[0]:]
	for i := 1; i < len(x.runners); i++ {
		other := (*x.trs[i])[before[i]:]
		if len(base) != len(other) {
			return &kvh.Fail{Sig: "transcripts-differ", Msg: fmt.Sprintf("op %s: configuration 0 (%s) produced %d results, configuration %d (%s) %d:\n%q\n%q", op.K, x.runners[0].Opt, len(base), i, x.runners[i].Opt, len(other), base, other)}
		}
		for j := range base {
			if base[j] != other[j] {
				return &kvh.Fail{Sig: "transcripts-differ", Msg: fmt.Sprintf("op %s: result %d differs:\n  configuration 0 (%s): %s\n  configuration %d (%s): %s", op.K, j, x.runners[0].Opt, base[j], i, x.runners[i].Opt, other[j])}
			}
		}
	}
	return nil
}

func (x *c14Exec) finish() *kvh.Fail {
	for i, r := range x.runners {
		if f := r.Finish(); f != nil {
			f.Msg = fmt.Sprintf("configuration %d (%s): %s", i, r.Opt, f.Msg)
			return f
		}
	}
	if !x.c.Bytes {
		return nil
	}
	// close all and compare the data files byte for byte
	var images []map[string][]byte
	for i, r := range x.runners {
		if f := r.CloseOnly(); f != nil {
			f.Msg = fmt.Sprintf("configuration %d (%s): %s", i, r.Opt, f.Msg)
			return f
		}
		img := map[string][]byte{}
		ents, _ := os.ReadDir(r.Dir)
		for _, e := range ents {
			if strings.HasSuffix(e.Name(), ".data") {
				b, _ := os.ReadFile(filepath.Join(r.Dir, e.Name()))
				img[e.Name()] = b
			}
		}
		images = append(images, img)
	}
	names := func(m map[string][]byte) []string {
		var ns []string
		for n := range m {
			ns = append(ns, n)
		}
		sort.Strings(ns)
		return ns
	}
	for i := 1; i < len(images); i++ {
		a, b := names(images[0]), names(images[i])
		if strings.Join(a, ",") != strings.Join(b, ",") {
			return &kvh.Fail{Sig: "data-files-differ", Msg: fmt.Sprintf("configuration 0 (%s) left files %v, configuration %d (%s) left %v", x.runners[0].Opt, a, i, x.runners[i].Opt, b)}
		}
		for _, n := range a {
			if !bytes.Equal(images[0][n], images[i][n]) {
				return &kvh.Fail{Sig: "data-files-differ", Msg: fmt.Sprintf("%s differs between configuration 0 (%s, %d bytes) and configuration %d (%s, %d bytes)", n, x.runners[0].Opt, len(images[0][n]), i, x.runners[i].Opt, len(images[i][n]))}
			}
		}
	}
	return nil
}

func c14Run(t *rapid.T, st *kvh.Stats) {
	c := &c14Case{Property: "C14", Kind: "c14", Bytes: kvh.Pct(t, 35, "bytesmode")}
	prof := c14Profile
	if c.Bytes {
		prof = c14BytesProfile
	}
	op := kvh.OptProfile{MMapPercent: 30}
	base := kvh.GenOpt(t, "opt0", op)
	c.Opts = []kvh.Opt{base}
	for i := 1; i <= 2; i++ {
		o := kvh.GenOpt(t, fmt.Sprintf("opt%d", i), op)
		if c.Bytes {
			o.FileSize = base.FileSize
		}
		c.Opts = append(c.Opts, o)
	}
	c.SameShards = kvh.Pct(t, 25, "sameshards")
	if c.SameShards {
		for i := range c.Opts {
			c.Opts[i].Shards = base.Shards
			c.Opts[i].Index = int8(1 + i)
		}
	}
	first := append([]kvh.Opt(nil), c.Opts...)
	x, f := newC14Exec(c)
	if f != nil {
		report(t, st, c, f)
	}
	defer x.cleanup()
	kvh.SetInFlight(&kvh.InFlight{Property: "C14", Case: func() any { return c }})
	defer kvh.SetInFlight(nil)
	pool := kvh.GenKeyPool(t, true)
	t.Repeat(map[string]func(*rapid.T){
		"op": func(t *rapid.T) {
			o := kvh.GenOp(t, x.runners[0], pool, prof)
			if o.K == "reopen" {
				for i := 1; i <= 2; i++ {
					oo := kvh.GenOpt(t, fmt.Sprintf("reopen%d", i), op)
					if c.Bytes {
						oo.FileSize = base.FileSize
					}
					o.OptN = append(o.OptN, oo)
				}
				if c.Bytes && o.Opt != nil {
					o.Opt.FileSize = base.FileSize
				}
				if c.SameShards && o.Opt != nil {
					for i := range o.OptN {
						o.OptN[i].Shards = o.Opt.Shards
					}
				}
			}
			if o.K == "iter" && o.Iter != nil && c.SameShards {
				o.Iter.Backward = true
			}
			if f := x.step(o); f != nil {
				report(t, st, c, f)
			}
		},
	})
	if f := x.finish(); f != nil {
		report(t, st, c, f)
	}
	st.Eval(1)
	r0 := x.runners[0]
	dims := map[string]bool{}
	for i := 1; i < 3; i++ {
		a, b := first[0], first[i]
		if a.Index != b.Index {
			dims["index-type"] = true
		}
		if a.Shards != b.Shards {
			dims["shard-count"] = true
		}
		if a.IO != b.IO {
			dims["io-type"] = true
		}
		if a.FileSize != b.FileSize {
			dims["file-size-limit"] = true
		}
		if a.Sync != b.Sync || a.BytesPerSync != b.BytesPerSync {
			dims["sync-strategy"] = true
		}
	}
	for d := range dims {
		st.Label("differs-in-" + d)
	}
	if c.Bytes {
		st.Label("bytes-mode")
	}
	r0.AddLabels()
	if r0.F.Rewrites >= 1 && r0.F.Enumerations >= 1 && len(dims) >= 1 {
		parts := [][]byte{}
		for _, o := range first {
			parts = append(parts, []byte(o.String()))
		}
		parts = append(parts, []byte(fmt.Sprint(r0.CaseHash(first[0]))))
		st.NonTrivial(kvh.Hash64(parts...))
		if st.WantSample() {
			s := kvh.Abbrev(first[0], c.Ops)
			s["configs"] = []string{first[0].String(), first[1].String(), first[2].String()}
			s["bytesMode"] = c.Bytes
			st.Sample(s)
		} else {
			st.Sample(nil)
		}
	}
}

func init() {
	replayers["c14"] = func(_ *kvh.Case, raw []byte) *kvh.Fail {
		var c c14Case
		if err := jsonUnmarshal(raw, &c); err != nil {
			return &kvh.Fail{Sig: "harness-bad-case", Msg: err.Error()}
		}
		ops := c.Ops
		c.Ops = nil
		x, f := newC14Exec(&c)
		if f != nil {
			return f
		}
		defer x.cleanup()
		for _, op := range ops {
			if f := x.step(op); f != nil {
				return f
			}
		}
		return x.finish()
	}
}
