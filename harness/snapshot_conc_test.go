package harness

import (
	"fmt"
	"os"
	"path/filepath"
	"runtime/debug"
	"sort"
	"sync"
	"sync/atomic"
	"testing"
	"time"

	kv "github.com/XiXi-2024/xixi-kv"
	"pgregory.net/rapid"
	"verifharness/kvh"
)

// Snapshots under a concurrent writer (parts of C10 and C20). One goroutine
// applies a deterministic sequence of Puts and Deletes, so the database passes
// through the states S_0, S_1, ... in order. Another goroutine takes snapshots
// (an iterator, ListKeys, Fold, or a Backup that is then opened). A snapshot
// taken by a call that started after a operations had been acknowledged and
// returned when b operations had been started must be exactly S_j for some
// a <= j <= b: the state at ONE instant of the call - not a mixture of
// several, and nothing older or newer.

const snapRule = "concurrent part: a writer goroutine applies a deterministic sequence of 400..20000 Put/Delete on 6..12 keys (ShardNum in {1,16,1024,5000}, every index type) while a reader takes 3..8 snapshots through %s; oracle: each snapshot equals the state after exactly j writer operations for some j between the number acknowledged when the snapshot call started and the number started when it returned (%s); non-trivial = the writer made progress during the snapshot call"

type snapCase struct {
	Property string  `json:"property"`
	Kind     string  `json:"kind"`
	Opt      kvh.Opt `json:"options"`
	Seed     uint64  `json:"seed"`
	NKeys    int     `json:"nkeys"`
	Reader   string  `json:"reader"` // iterator | listkeys | fold | backup
	Snaps    int     `json:"snaps"`
	PauseUS  int     `json:"pauseUs"`
}

func snapOp(seed uint64, i int, nk int) (key string, del bool, val []byte) {
	h := kvh.Hash64([]byte(fmt.Sprintf("%d|%d", seed, i)))
	key = fmt.Sprintf("k%02d", h%uint64(nk))
	del = (h>>16)%100 < 40
	if !del {
		val = []byte(fmt.Sprintf("v%d-%0*d", i, int((h>>32)%30), 0))
	}
	return
}

type snapShot struct {
	a, b   int64
	keys   []string
	vals   map[string][]byte // nil for key-only snapshots
	detail string
}

func runSnap(c *snapCase) (progress int, fail *kvh.Fail) {
	e := kvh.GetEnv()
	base := e.NewDir("snap")
	dir := filepath.Join(base, "db")
	defer func() {
		gIO.Forget(base)
		_ = os.RemoveAll(base)
	}()
	db, err := kv.Open(c.Opt.KV(dir))
	if err != nil {
		return 0, &kvh.Fail{Sig: "open-error", Msg: err.Error()}
	}
	defer func() {
		func() {
			defer func() { _ = recover() }()
			_ = db.Close()
		}()
	}()
	const maxOps = 20000
	var started, acked atomic.Int64
	var stop atomic.Bool
	var wErr atomic.Value
	var wg sync.WaitGroup
	wg.Add(1)
	go func() {
		defer wg.Done()
		defer func() {
			if p := recover(); p != nil {
				wErr.Store(fmt.Sprintf("writer panicked: %v\n%s", p, debug.Stack()))
			}
		}()
		debug.SetPanicOnFault(true)
		for i := 0; i < maxOps && (i < 400 || !stop.Load()); i++ {
			key, del, val := snapOp(c.Seed, i, c.NKeys)
			started.Add(1)
			var err error
			if del {
				err = db.Delete([]byte(key))
			} else {
				err = db.Put([]byte(key), val)
			}
			if err != nil {
				wErr.Store(fmt.Sprintf("writer op %d: %v", i, err))
				return
			}
			acked.Add(1)
		}
	}()
	var shots []snapShot
	var rFail *kvh.Fail
	func() {
		defer func() {
			if p := recover(); p != nil {
				rFail = &kvh.Fail{Sig: "panic-under-concurrency", Msg: fmt.Sprintf("reader (%s) panicked: %v\n%s", c.Reader, p, debug.Stack())}
			}
		}()
		debug.SetPanicOnFault(true)
		for s := 0; s < c.Snaps; s++ {
			if c.PauseUS > 0 {
				time.Sleep(time.Duration(c.PauseUS) * time.Microsecond)
			}
			sh := snapShot{}
			switch c.Reader {
			case "listkeys":
				sh.a = acked.Load()
				ks := db.ListKeys()
				sh.b = started.Load()
				for _, k := range ks {
					sh.keys = append(sh.keys, string(k))
				}
			case "fold":
				sh.vals = map[string][]byte{}
				sh.a = acked.Load()
				err := db.Fold(func(k, v []byte) bool {
					sh.keys = append(sh.keys, string(k))
					sh.vals[string(k)] = append([]byte(nil), v...)
					return true
				})
				sh.b = started.Load()
				if err != nil {
					rFail = &kvh.Fail{Sig: "internal-error-under-concurrency", Msg: "Fold: " + err.Error()}
					return
				}
			case "iterator":
				sh.vals = map[string][]byte{}
				sh.a = acked.Load()
				it := db.NewIterator(kv.IteratorOptions{})
				sh.b = started.Load()
				// the traversal happens later, while the writer goes on
				time.Sleep(30 * time.Microsecond)
				for it.Rewind(); it.Valid(); it.Next() {
					v, err := it.Value()
					if err != nil {
						it.Close()
						rFail = &kvh.Fail{Sig: "iter-value-error", Msg: fmt.Sprintf("Value() of %q: %v", it.Key(), err)}
						return
					}
					sh.keys = append(sh.keys, string(it.Key()))
					sh.vals[string(it.Key())] = append([]byte(nil), v...)
				}
				it.Close()
			case "backup":
				bdir := filepath.Join(base, fmt.Sprintf("backup%d", s))
				sh.a = acked.Load()
				err := db.Backup(bdir)
				sh.b = started.Load()
				if err != nil {
					rFail = &kvh.Fail{Sig: "backup-error", Msg: err.Error()}
					return
				}
				bdb, err := kv.Open(c.Opt.KV(bdir))
				if err != nil {
					rFail = &kvh.Fail{Sig: "backup-open-error", Msg: fmt.Sprintf("the backup taken while the writer was running does not open: %v", err)}
					return
				}
				dump, f := kvh.DumpDB(bdb)
				_ = bdb.Close()
				gIO.Forget(bdir)
				_ = os.RemoveAll(bdir)
				if f != nil {
					rFail = f
					return
				}
				sh.vals = dump
				for k := range dump {
					sh.keys = append(sh.keys, k)
				}
			}
			shots = append(shots, sh)
		}
	}()
	stop.Store(true)
	done := make(chan struct{})
	go func() { wg.Wait(); close(done) }()
	select {
	case <-done:
	case <-time.After(120 * time.Second):
		return 0, deadlockOrTimeout("the writer did not finish")
	}
	if rFail != nil {
		return 0, rFail
	}
	if w := wErr.Load(); w != nil {
		return 0, &kvh.Fail{Sig: "internal-error-under-concurrency", Msg: w.(string)}
	}
	// the writer's states
	n := int(acked.Load())
	state := map[string][]byte{}
	full := make([]uint64, n+1)
	keysOnly := make([]uint64, n+1)
	digest := func() (uint64, uint64) {
		ks := make([]string, 0, len(state))
		for k := range state {
			ks = append(ks, k)
		}
		sort.Strings(ks)
		var kp [][]byte
		for _, k := range ks {
			kp = append(kp, []byte(k))
		}
		return kvh.StateDigest(state), kvh.Hash64(kp...)
	}
	full[0], keysOnly[0] = digest()
	for i := 0; i < n; i++ {
		key, del, val := snapOp(c.Seed, i, c.NKeys)
		if del {
			delete(state, key)
		} else {
			state[key] = val
		}
		full[i+1], keysOnly[i+1] = digest()
	}
	for si, sh := range shots {
		if sh.b > int64(n) {
			sh.b = int64(n)
		}
		if sh.b > sh.a {
			progress++
		}
		sort.Strings(sh.keys)
		var got uint64
		table := full
		if sh.vals == nil {
			var kp [][]byte
			for _, k := range sh.keys {
				kp = append(kp, []byte(k))
			}
			got = kvh.Hash64(kp...)
			table = keysOnly
		} else {
			got = kvh.StateDigest(sh.vals)
		}
		ok := false
		for j := sh.a; j <= sh.b; j++ {
			if table[j] == got {
				ok = true
				break
			}
		}
		if !ok {
			where := "no state of the writer at all"
			for j := 0; j <= n; j++ {
				if table[j] == got {
					where = fmt.Sprintf("the state after %d operations", j)
					break
				}
			}
			desc := fmt.Sprint(sh.keys)
			if sh.vals != nil {
				desc = kvh.DescribeDump(sh.vals)
			}
			return progress, &kvh.Fail{Sig: "snapshot-not-a-state-of-its-call", Msg: fmt.Sprintf("snapshot %d through %s: the call started after %d writer operations had been acknowledged and returned when %d had been started, but what it shows (%s) is %s", si, c.Reader, sh.a, sh.b, desc, where)}
		}
	}
	return progress, nil
}

func snapConcurrent(t *testing.T, st *kvh.Stats, prop string, readers []string, mmapPct int) {
	checkCases(t, st, func(t *rapid.T) {
		c := &snapCase{Property: prop, Kind: "snapconc"}
		c.Opt = kvh.GenOpt(t, "opt", kvh.OptProfile{MMapPercent: mmapPct, FileSizes: []int64{4096, 1 << 20}})
		c.Opt.Sync = 0
		c.Opt.Shards = kvh.Pick(t, []int{1, 16, 1024, 5000, 5000}, "shards")
		c.Seed = uint64(kvh.U(t, 1<<20, "seed"))
		c.NKeys = 6 + kvh.U(t, 7, "nkeys")
		c.Reader = kvh.Pick(t, readers, "reader")
		c.Snaps = 3 + kvh.U(t, 6, "snaps")
		if c.Reader == "backup" {
			c.Snaps = 1 + kvh.U(t, 3, "bsnaps")
		}
		c.PauseUS = kvh.Pick(t, []int{0, 5, 20, 100}, "pause")
		kvh.PersistCase(prop, c)
		progress, f := runSnap(c)
		kvh.ClearPersisted(prop)
		if f != nil {
			if len(f.Sig) >= 7 && f.Sig[:7] == "harness" {
				st.Label("inconclusive-" + f.Sig)
				return
			}
			report(t, st, c, f)
		}
		st.Eval(1)
		st.Label("snapshot-under-writer-" + c.Reader)
		if progress > 0 {
			st.Label("writer-progressed-during-a-snapshot-call")
			st.NonTrivial(kvh.Hash64([]byte(fmt.Sprintf("snap|%+v", *c))))
		}
	})
}

func init() {
	replayers["snapconc"] = func(_ *kvh.Case, raw []byte) *kvh.Fail {
		var c snapCase
		if err := jsonUnmarshal(raw, &c); err != nil {
			return &kvh.Fail{Sig: "harness-bad-case", Msg: err.Error()}
		}
		for i := 0; i < 40; i++ {
			if _, f := runSnap(&c); f != nil {
				return f
			}
		}
		return nil
	}
}
