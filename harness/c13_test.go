package harness

import (
	"fmt"
	"path/filepath"
	"sort"
	"strings"
	"testing"

	"pgregory.net/rapid"
	"verifharness/kvh"
)

// C13 — the sync policy is honoured. The fio hooks feed a per-file shadow
// (logical length, length at the last sync); it is inspected at every return
// of a public call and at every rotation.

var c13Profile = &kvh.GenProfile{
	Weights: map[string]int{
		"put": 46, "del": 10, "batch": 18, "sync": 5, "reopen": 6, "merge": 3, "get": 2, "tear": 5, "kill": 5,
	},
	MaxBatchOps: 6,
	Big:         true,
	OptProfile:  kvh.OptProfile{MMapPercent: 30, FileSizes: []int64{200, 1000, 4096, 40000, 1 << 20}},
}

const c13Rule = "op sequences (Put/Delete/batches with and without Sync/Sync()/rotations/Close+reopen/merge) x SyncStrategy x BytesPerSync {1,100,4096,1 MiB} x I/O type; oracle over the hook-fed shadow at every return of a public call: Always => no record byte appended by an acknowledged Put/Delete lies beyond its file's synced length; Threshold => such bytes sum to < BytesPerSync; Sync batch => every byte it wrote (records and sealing record) is below its file's synced length when Commit returns; Sync()/Close() => nothing unsynced in the data or merge directory; at every creation of a new data file all other data files of that directory are fully synced; non-trivial = >= 1 rotation, >= 1 threshold-triggered sync or a Sync batch that wrote; distinct = hash of (options, ops)"

type c13Extent struct {
	path  string
	end   int64
	size  int64
	batch bool // written by a Sync batch (otherwise by a plain Put/Delete)
}

type c13State struct {
	plain       bool
	syncBatchOp bool
	extents     []c13Extent
	rotFail     *kvh.Fail
	thrSyncs    int
	syncBatch   int
	rotations   int
	inCall      string
}

// filesUnsynced lists the files (with the given suffix) under dirs whose
// logical length exceeds their length at the last sync.
func filesUnsynced(suffix string, dirs ...string) []string {
	var bad []string
	snap := gIO.Snapshot(dirs...)
	for p, f := range snap {
		if !strings.HasSuffix(p, suffix) {
			continue
		}
		if f.Synced < f.Logical {
			bad = append(bad, fmt.Sprintf("%s: %d of %d bytes synced", filepath.Base(filepath.Dir(p))+"/"+filepath.Base(p), f.Synced, f.Logical))
		}
	}
	sort.Strings(bad)
	return bad
}

func c13Setup(r *kvh.Runner) {
	s := &c13State{}
	mergeDir := r.Dir + "-merge"
	gIO.OnEvent = func(ev kvh.Event) {
		inData := strings.HasPrefix(ev.Path, r.Dir+"/")
		inMerge := strings.HasPrefix(ev.Path, mergeDir+"/")
		if !inData && !inMerge {
			return
		}
		switch ev.Kind {
		case "write":
			if !inData || !strings.HasSuffix(ev.Path, ".data") {
				return
			}
			fs, _ := gIO.Get(ev.Path)
			if s.plain {
				pad := int64(0)
				if res := fs.Logical % kvh.BlockSize; res+kvh.ChunkHeader >= kvh.BlockSize {
					pad = kvh.BlockSize - res
				}
				s.extents = append(s.extents, c13Extent{path: ev.Path, end: fs.Logical + ev.N, size: ev.N - pad})
			}
			if s.syncBatchOp && ev.N > 0 {
				s.extents = append(s.extents, c13Extent{path: ev.Path, end: fs.Logical + ev.N, size: ev.N, batch: true})
			}
		case "sync":
			if s.plain && r.Opt.Sync == 2 {
				s.thrSyncs++
			}
		case "open":
			if !strings.HasSuffix(ev.Path, ".data") {
				return
			}
			if _, known := gIO.Get(ev.Path); known {
				return
			}
			// a new data file is about to be created: the engine rotates away from the others
			dir := filepath.Dir(ev.Path)
			if bad := filesUnsynced(".data", dir); len(bad) > 0 && s.rotFail == nil && s.inCall != "open" {
				s.rotFail = &kvh.Fail{Sig: "rotation-without-sync", Msg: fmt.Sprintf("during %s a new data file %s is created while unsynced data remains in %v", s.inCall, filepath.Base(ev.Path), bad)}
			}
			if inData {
				s.rotations++
			}
		}
	}
	r.BeforeStep = append(r.BeforeStep, func(r *kvh.Runner, op *kvh.Op) {
		s.plain = op.K == "put" || op.K == "del"
		s.syncBatchOp = op.K == "batch" && op.Sync
		s.inCall = op.K
	})
	r.OnKilled = func(r *kvh.Runner) {
		// what the dead process had acknowledged under ITS strategy is not owed a flush by the clauses for Always /
		// Threshold of the next one; Sync(), rotation and Close of the new process cover the inherited bytes too
		s.extents = nil
		s.inCall = "open"
	}
	r.OnClosed = func(r *kvh.Runner) *kvh.Fail {
		if bad := filesUnsynced("", r.Dir, mergeDir); len(bad) > 0 {
			return &kvh.Fail{Sig: "close-leaves-unsynced-data", Msg: fmt.Sprintf("after Close() returned: %v", bad)}
		}
		s.inCall = "open"
		return nil
	}
	r.AfterStep = append(r.AfterStep, func(r *kvh.Runner, op *kvh.Op) *kvh.Fail {
		wasSyncBatch := s.syncBatchOp
		s.plain = false
		s.syncBatchOp = false
		if s.rotFail != nil {
			return s.rotFail
		}
		// drop extents that are synced by now or whose file is gone
		kept := s.extents[:0]
		var unsynced, unsyncedBatch int64
		batchWrote := false
		for _, e := range s.extents {
			if e.batch {
				batchWrote = true
			}
			fs, ok := gIO.Get(e.path)
			if !ok || e.end <= fs.Synced {
				continue
			}
			kept = append(kept, e)
			if e.batch {
				unsyncedBatch += e.size
			} else {
				unsynced += e.size
			}
		}
		s.extents = kept
		if wasSyncBatch && batchWrote {
			s.syncBatch++
		}
		if unsyncedBatch > 0 {
			return &kvh.Fail{Sig: "sync-batch-returns-unsynced", Msg: fmt.Sprintf("after %s returned, %d bytes written by a Sync batch (its records or its sealing record) lie beyond the synced length of their file", op.K, unsyncedBatch)}
		}
		switch r.Opt.Sync {
		case 1:
			if unsynced > 0 {
				return &kvh.Fail{Sig: "always-returns-unsynced", Msg: fmt.Sprintf("SyncStrategy Always: after %s returned, %d bytes appended by acknowledged Puts/Deletes are unsynced (%d records, e.g. in %s)", op.K, unsynced, len(kept), filepath.Base(kept[0].path))}
			}
		case 2:
			if unsynced >= int64(r.Opt.BytesPerSync) {
				return &kvh.Fail{Sig: "threshold-exceeded", Msg: fmt.Sprintf("SyncStrategy Threshold(%d): after %s returned, %d bytes appended by acknowledged Puts/Deletes are unsynced (%d records)", r.Opt.BytesPerSync, op.K, unsynced, len(kept))}
			}
		}
		if op.K == "sync" {
			if bad := filesUnsynced("", r.Dir, mergeDir); len(bad) > 0 {
				return &kvh.Fail{Sig: "sync-leaves-unsynced-data", Msg: fmt.Sprintf("after Sync() returned: %v", bad)}
			}
		}
		r.F.C13Rot, r.F.C13Thr, r.F.C13SyncBatch = s.rotations, s.thrSyncs, s.syncBatch
		return nil
	})
}

func init() { historySetups["C13"] = c13Setup }

func TestC13(t *testing.T) {
	st := kvh.StatsFor("C13")
	st.SetRule(c13Rule+" || "+c13wRule,
		"the shadow is driven by hook lines placed immediately before the real write/fsync/msync/truncate calls; for standard I/O a sample of generated workloads is re-executed under strace and the system calls per file must match the hook events one to one (hook-fidelity pass); for MMap hook fidelity stays an assumption",
		"Threshold counts record bytes (chunk headers included, block-tail padding and batch bytes excluded), as the statement words it",
		"padding is derived from the file offset by the format rule (a tail of <= 7 bytes is padded)")
	defer finishProperty(st)
	defer func() { gIO.OnEvent = nil }()
	t.Run("hook-fidelity", func(t *testing.T) {
		n := 2
		if kvh.GetEnv().Thorough() {
			n = 14
		}
		c13Fidelity(t, st, n)
	})
	t.Run("windows", func(t *testing.T) { c13Windows(t, st) })
	checkCases(t, st, func(t *rapid.T) {
		runHistoryCase(t, "C13", c13Profile, func(r *kvh.Runner) bool {
			return r.F.C13Rot > 0 || r.F.C13Thr > 0 || r.F.C13SyncBatch > 0
		})
	})
}
