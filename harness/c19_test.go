package harness

import (
	"bytes"
	"errors"
	"fmt"
	"math"
	"os"
	"path/filepath"
	"runtime/debug"
	"strings"
	"sync"
	"testing"
	"time"

	kv "github.com/XiXi-2024/xixi-kv"
	"github.com/XiXi-2024/xixi-kv/datatype"
	"pgregory.net/rapid"
	"verifharness/kvh"
)

// C19 — the Redis-style structures behave like their abstract types and
// survive restart.

const c19Rule = "command sequences over <= 4 user keys and <= 4 fields/members/elements mixing String(+expiry class), Hash, Set, List and ZSet commands, Del, Type and Restart (Close + NewDataTypeService) at any point, same key reused across types; oracle = in-memory abstract types (new/existing flags, sizes, popped elements in deque order, scores, wrong-type errors, expired string == absent, re-creation after Del starts empty, state unchanged by restart); forms of 'absent' are not distinguished; non-trivial = >= 2 types used and a Del-and-recreate or a Restart after >= 1 aggregate update; distinct = hash of the command list"

type rcmd struct {
	C     string   `json:"c"`
	Key   []byte   `json:"key,omitempty"`
	F     []byte   `json:"f,omitempty"`
	V     []byte   `json:"v,omitempty"`
	Score float64  `json:"score,omitempty"`
	Inf   int      `json:"inf,omitempty"` // +1 / -1: the score is +Inf / -Inf (JSON has no spelling for them)
	TTL   int      `json:"ttl,omitempty"` // 0 none, 1 = +1h, -1 = -1h
	Opt   *kvh.Opt `json:"opt,omitempty"`
}

type c19Case struct {
	Property string  `json:"property"`
	Kind     string  `json:"kind"`
	Opt      kvh.Opt `json:"options"`
	Cmds     []rcmd  `json:"cmds"`
	// Packed: every command's key, field and value are sub-slices of one request buffer
	Packed bool `json:"packed,omitempty"`
}

// abstract state of one user key
type rkey struct {
	typ     string // "", string, hash, set, list, zset
	str     []byte
	expired bool
	// pending: set with the short TTL and no deliberate wait since - whether it is still there depends on the clock,
	// so nothing is asserted about it until a "sleep" (then it has expired) or an overwrite
	pending bool
	hash    map[string][]byte
	set     map[string]bool
	list    [][]byte
	zset    map[string]float64
}

func (k *rkey) size() int {
	switch k.typ {
	case "hash":
		return len(k.hash)
	case "set":
		return len(k.set)
	case "list":
		return len(k.list)
	case "zset":
		return len(k.zset)
	}
	return 0
}

// ambiguous: the statement does not say whether such a key still has a type
func (k *rkey) ambiguous() bool {
	if k.typ == "string" {
		return k.pending // an expired string is absent, for every command; a pending one depends on the clock
	}
	return k.typ != "" && k.size() == 0
}

type redisRunner struct {
	dir    string
	base   string
	dts    *datatype.DataTypeService
	packed bool
	keys   map[string]*rkey
	cmds   []rcmd
	types  map[string]bool
	// features
	delRecreate, restartAfterAgg, restarts, aggUpdates, wrongType, excluded, crossType int
	sleeps                                                                             int
	expiredOther                                                                       int  // commands of another type, or Type, on an expired string
	shortSinceSleep                                                                    bool // a short TTL was handed out since the last sleep
	deleted                                                                            map[string]bool
}

func newRedisRunner(opt kvh.Opt) (*redisRunner, *kvh.Fail) {
	e := kvh.GetEnv()
	r := &redisRunner{keys: map[string]*rkey{}, types: map[string]bool{}, deleted: map[string]bool{}}
	r.base = e.NewDir("c19")
	r.dir = filepath.Join(r.base, "db")
	dts, err := datatype.NewDataTypeService(opt.KV(r.dir))
	if err != nil {
		os.RemoveAll(r.base)
		return nil, &kvh.Fail{Sig: "open-error", Msg: err.Error()}
	}
	r.dts = dts
	return r, nil
}

func (r *redisRunner) cleanup() {
	if r.dts != nil {
		func() {
			defer func() { _ = recover() }()
			_ = r.dts.Close()
		}()
	}
	gIO.Forget(r.base)
	os.RemoveAll(r.base)
}

func (r *redisRunner) key(k []byte) *rkey {
	s := r.keys[string(k)]
	if s == nil {
		s = &rkey{}
		r.keys[string(k)] = s
	}
	return s
}

func typeOf(cmd string) string {
	switch cmd {
	case "set", "get":
		return "string"
	case "hset", "hget", "hdel":
		return "hash"
	case "sadd", "sismember", "srem":
		return "set"
	case "lpush", "rpush", "lpop", "rpop":
		return "list"
	case "zadd", "zscore":
		return "zset"
	}
	return ""
}

var typeByte = map[string]byte{"string": 0, "hash": 1, "set": 2, "list": 3, "zset": 4}

// admissible reports whether the statement determines the reply of cmd on the
// key's current abstract state.
func (r *redisRunner) admissible(c *rcmd) bool {
	if c.C == "restart" || c.C == "del" || c.C == "set" {
		return true
	}
	if c.C == "sleep" {
		return true
	}
	k := r.key(c.Key)
	if k.pending {
		return false
	}
	if !k.ambiguous() {
		return true
	}
	// emptied aggregate: only same-type commands are determined
	if c.C == "type" {
		return false
	}
	return typeOf(c.C) == k.typ
}

func absentErr(err error) bool { return err == nil || errors.Is(err, kv.ErrKeyNotFound) }

func (r *redisRunner) step(c rcmd) (fail *kvh.Fail) {
	r.cmds = append(r.cmds, c)
	defer func() {
		if p := recover(); p != nil {
			fail = &kvh.Fail{Sig: "panic", Msg: fmt.Sprintf("%s panicked: %v\n%s", c.C, p, debug.Stack())}
		}
	}()
	bad := func(sig, format string, a ...any) *kvh.Fail {
		return &kvh.Fail{Sig: sig, Msg: fmt.Sprintf("cmd %d %s key=%q f=%q: ", len(r.cmds)-1, c.C, c.Key, c.F) + fmt.Sprintf(format, a...)}
	}
	if c.C == "restart" {
		if err := r.dts.Close(); err != nil {
			return bad("close-error", "%v", err)
		}
		r.dts = nil
		o := kvh.DefaultOpt()
		if c.Opt != nil {
			o = *c.Opt
		}
		dts, err := datatype.NewDataTypeService(o.KV(r.dir))
		if err != nil {
			return bad("open-error", "%v", err)
		}
		r.dts = dts
		r.restarts++
		if r.aggUpdates > 0 {
			r.restartAfterAgg++
		}
		// everything must be unchanged: probe every key with a same-type read
		return r.probeAll()
	}
	if r.packed {
		// the arguments arrive as a protocol parser hands them out: sub-slices of one request buffer, back to back,
		// each with the rest of the buffer as spare capacity; the buffer must come back untouched
		n := len(c.Key) + len(c.F) + len(c.V)
		buf := make([]byte, n, n+96)
		a, b := len(c.Key), len(c.Key)+len(c.F)
		copy(buf, c.Key)
		copy(buf[a:], c.F)
		copy(buf[b:], c.V)
		hadF, hadV := c.F != nil, c.V != nil
		c.Key = buf[:a]
		if hadF {
			c.F = buf[a:b]
		}
		if hadV {
			c.V = buf[b:n]
		}
		snap := append([]byte(nil), buf[:cap(buf)]...)
		defer func() {
			if fail == nil && !bytes.Equal(buf[:cap(buf)], snap) {
				fail = &kvh.Fail{Sig: "caller-arguments-modified", Msg: fmt.Sprintf("cmd %d %s: the request buffer holding key, field and value (sub-slices of one array) was modified by the call: %q -> %q", len(r.cmds)-1, c.C, snap[:n], buf[:n])}
			}
		}()
	}
	k := r.key(c.Key)
	if k.typ == "string" && k.expired && c.C != "sleep" {
		// expired means absent - for the commands of every type and for Type, not only for Get
		if c.C != "get" && c.C != "set" && c.C != "del" {
			r.expiredOther++
		}
		*k = rkey{}
	}
	t := typeOf(c.C)
	wrong := t != "" && c.C != "set" && k.typ != "" && k.typ != t
	if wrong {
		r.wrongType++
	}
	if t != "" {
		r.types[t] = true
	}
	create := func(typ string) {
		if k.typ == "" {
			if r.deleted[string(c.Key)] {
				r.delRecreate++
			}
			*k = rkey{typ: typ, hash: map[string][]byte{}, set: map[string]bool{}, zset: map[string]float64{}}
		}
	}
	wantWrong := func(err error) *kvh.Fail {
		if !errors.Is(err, datatype.ErrWrongTypeOperation) {
			return bad("wrong-type-not-rejected", "key holds a %s, reply error = %v, want ErrWrongTypeOperation", k.typ, err)
		}
		return nil
	}
	switch c.C {
	case "set":
		var ttl time.Duration
		if c.TTL > 0 {
			ttl = time.Hour
		} else if c.TTL < 0 {
			ttl = -time.Hour
		}
		switch c.TTL {
		case 2:
			ttl = time.Duration(math.MaxInt64) // "never expires" spelled as the longest duration there is
		case 3:
			ttl = c19ShortTTL
			r.shortSinceSleep = true
		}
		if c.V == nil {
			c.V = []byte{} // (a replayed case: JSON has dropped the empty value; Set(nil) would be a no-op)
		}
		if err := r.dts.Set(c.Key, c.V, ttl); err != nil {
			return bad("set-error", "%v", err)
		}
		if k.typ != "" && k.typ != "string" {
			r.crossType++
		}
		if k.typ == "" && r.deleted[string(c.Key)] {
			r.delRecreate++
		}
		*k = rkey{typ: "string", str: append([]byte(nil), c.V...), expired: c.TTL < 0, pending: c.TTL == 3}
	case "get":
		v, err := r.dts.Get(c.Key)
		if wrong {
			return wantWrong(err)
		}
		if k.typ == "" || k.expired {
			if !absentErr(err) || len(v) != 0 {
				return bad("string-absent", "key is absent/expired, Get = (%q, %v)", v, err)
			}
			return nil
		}
		if err != nil || string(v) != string(k.str) {
			return bad("string-value", "Get = (%q, %v), want %q", v, err, k.str)
		}
	case "hset":
		isNew, err := r.dts.HSet(c.Key, c.F, c.V)
		if wrong {
			return wantWrong(err)
		}
		if err != nil {
			return bad("hset-error", "%v", err)
		}
		create("hash")
		_, had := k.hash[string(c.F)]
		if isNew == had {
			return bad("hash-new-flag", "HSet returned new=%v, field existed=%v", isNew, had)
		}
		k.hash[string(c.F)] = append([]byte(nil), c.V...)
		r.aggUpdates++
	case "hget":
		v, err := r.dts.HGet(c.Key, c.F)
		if wrong {
			return wantWrong(err)
		}
		want, had := k.hash[string(c.F)]
		if !had {
			if !absentErr(err) || len(v) != 0 {
				return bad("hash-absent-field", "HGet of an absent field = (%q, %v)", v, err)
			}
			return nil
		}
		if err != nil || string(v) != string(want) {
			return bad("hash-value", "HGet = (%q, %v), want %q", v, err, want)
		}
	case "hdel":
		ok, err := r.dts.HDel(c.Key, c.F)
		if wrong {
			return wantWrong(err)
		}
		if err != nil {
			return bad("hdel-error", "%v", err)
		}
		_, had := k.hash[string(c.F)]
		if ok != had {
			return bad("hash-del-flag", "HDel returned %v, field existed=%v", ok, had)
		}
		delete(k.hash, string(c.F))
		if had {
			r.aggUpdates++
		}
	case "sadd":
		ok, err := r.dts.SAdd(c.Key, c.F)
		if wrong {
			return wantWrong(err)
		}
		if err != nil {
			return bad("sadd-error", "%v", err)
		}
		create("set")
		if ok == k.set[string(c.F)] {
			return bad("set-add-flag", "SAdd returned %v, member existed=%v", ok, k.set[string(c.F)])
		}
		k.set[string(c.F)] = true
		r.aggUpdates++
	case "sismember":
		ok, err := r.dts.SIsMember(c.Key, c.F)
		if wrong {
			return wantWrong(err)
		}
		if err != nil {
			return bad("sismember-error", "%v", err)
		}
		if ok != k.set[string(c.F)] {
			return bad("set-membership", "SIsMember = %v, want %v", ok, k.set[string(c.F)])
		}
	case "srem":
		ok, err := r.dts.SRem(c.Key, c.F)
		if wrong {
			return wantWrong(err)
		}
		if err != nil {
			return bad("srem-error", "%v", err)
		}
		if ok != k.set[string(c.F)] {
			return bad("set-rem-flag", "SRem returned %v, member existed=%v", ok, k.set[string(c.F)])
		}
		if ok {
			r.aggUpdates++
		}
		delete(k.set, string(c.F))
	case "lpush", "rpush":
		var n uint32
		var err error
		if c.C == "lpush" {
			n, err = r.dts.LPush(c.Key, c.V)
		} else {
			n, err = r.dts.RPush(c.Key, c.V)
		}
		if wrong {
			return wantWrong(err)
		}
		if err != nil {
			return bad("push-error", "%v", err)
		}
		create("list")
		v := append([]byte(nil), c.V...)
		if c.C == "lpush" {
			k.list = append([][]byte{v}, k.list...)
		} else {
			k.list = append(k.list, v)
		}
		if int(n) != len(k.list) {
			return bad("list-size", "%s returned size %d, want %d", c.C, n, len(k.list))
		}
		r.aggUpdates++
	case "lpop", "rpop":
		var v []byte
		var err error
		if c.C == "lpop" {
			v, err = r.dts.LPop(c.Key)
		} else {
			v, err = r.dts.RPop(c.Key)
		}
		if wrong {
			return wantWrong(err)
		}
		if len(k.list) == 0 {
			if !absentErr(err) || len(v) != 0 {
				return bad("list-pop-empty", "pop from an empty list = (%q, %v)", v, err)
			}
			return nil
		}
		var want []byte
		if c.C == "lpop" {
			want, k.list = k.list[0], k.list[1:]
		} else {
			want, k.list = k.list[len(k.list)-1], k.list[:len(k.list)-1]
		}
		if err != nil || string(v) != string(want) {
			return bad("list-pop-order", "%s = (%q, %v), want %q", c.C, v, err, want)
		}
		r.aggUpdates++
	case "zadd":
		if c.Inf != 0 {
			c.Score = math.Inf(c.Inf)
		}
		isNew, err := r.dts.ZAdd(c.Key, c.Score, c.F)
		if wrong {
			return wantWrong(err)
		}
		if err != nil {
			return bad("zadd-error", "%v", err)
		}
		create("zset")
		_, had := k.zset[string(c.F)]
		if isNew == had {
			return bad("zset-new-flag", "ZAdd returned new=%v, member existed=%v", isNew, had)
		}
		k.zset[string(c.F)] = c.Score
		r.aggUpdates++
	case "zscore":
		s, err := r.dts.ZScore(c.Key, c.F)
		if wrong {
			return wantWrong(err)
		}
		want, had := k.zset[string(c.F)]
		if !had {
			if !absentErr(err) || s != -1 {
				return bad("zset-absent-member", "ZScore of an absent member = (%v, %v), want the absent reply (-1)", s, err)
			}
			return nil
		}
		if err != nil || s != want {
			return bad("zset-score", "ZScore = (%v, %v), want %v", s, err, want)
		}
	case "del":
		if err := r.dts.Del(c.Key); err != nil {
			return bad("del-error", "%v", err)
		}
		if k.typ != "" {
			r.deleted[string(c.Key)] = true
		}
		*k = rkey{}
	case "sleep":
		// a deliberate wait longer than the short TTL: whatever was set with it has expired now (the only direction in
		// which the clock is relied on: at least this much time has passed)
		time.Sleep(c19ShortTTL + c19ShortTTL/2)
		for _, kk := range r.keys {
			if kk.pending {
				kk.pending, kk.expired = false, true
			}
		}
		r.shortSinceSleep = false
		r.sleeps++
	case "type":
		tb, err := r.dts.Type(c.Key)
		if k.typ == "" {
			if err == nil {
				return bad("type-of-absent-key", "Type of an absent key = %d, nil", tb)
			}
			return nil
		}
		if err != nil || tb != typeByte[k.typ] {
			return bad("type-wrong", "Type = (%d, %v), key holds a %s (%d)", tb, err, k.typ, typeByte[k.typ])
		}
	}
	return nil
}

// probeAll reads back the whole abstract state with same-type reads.
func (r *redisRunner) probeAll() *kvh.Fail {
	saved := r.cmds
	defer func() { r.cmds = saved }()
	for ks, k := range r.keys {
		key := []byte(ks)
		var probes []rcmd
		switch k.typ {
		case "":
			probes = append(probes, rcmd{C: "type", Key: key})
		case "string":
			probes = append(probes, rcmd{C: "get", Key: key})
		case "hash":
			for _, f := range c19Fields {
				probes = append(probes, rcmd{C: "hget", Key: key, F: f})
			}
		case "set":
			for _, f := range c19Fields {
				probes = append(probes, rcmd{C: "sismember", Key: key, F: f})
			}
		case "zset":
			for _, f := range c19Fields {
				probes = append(probes, rcmd{C: "zscore", Key: key, F: f})
			}
		case "list":
			// non-destructive: nothing to read without popping; the next pops will tell
		}
		for _, p := range probes {
			if !r.admissible(&p) {
				continue
			}
			if f := r.step(p); f != nil {
				f.Msg = "after restart: " + f.Msg
				return f
			}
		}
	}
	return nil
}

// c19ShortTTL is the only TTL whose expiry is waited for: a "sleep" command waits one and a half times as long.
const c19ShortTTL = 30 * time.Millisecond

var (
	c19Keys = [][]byte{[]byte("a"), []byte("b"), []byte("ab"), []byte("c")}
	// "10" and "1x" spell a score from the pool followed by another member of the pool ("0", "x"): members and
	// (score, member) pairs must stay apart whatever their bytes are
	c19Fields = [][]byte{[]byte("f1"), []byte("f2"), []byte("x"), {0x00, 0xff}, []byte("0"), []byte("10"), []byte("1x")}
	// distinct scores, among them pairs that differ only in the last bits (an update must still be an update)
	c19Scores = []float64{-2.5, 0, 0.5, math.Nextafter(0.5, 1), 1, 3, 100, 100.00000001, 1e10, 1e10 + 1, -0.001, 1.7e12, 1.70000000025e12,
		// the ends of the float64 range: beyond the 64-bit integers, the largest and the smallest magnitudes, 2^53 and its neighbour
		9223372036854775808, 1e19, -1e30, math.MaxFloat64, -math.MaxFloat64, math.SmallestNonzeroFloat64, 1e-7, 9007199254740992, 9007199254740994, -9223372036854775808, math.Copysign(0, -1), -1}
	// values whose leading bytes look like (over-long) varints, like a metadata record of another type, or are all zero
	c19BinaryValues = [][]byte{
		bytes.Repeat([]byte{0xff}, 12), append(bytes.Repeat([]byte{0x80}, 10), 'x'), bytes.Repeat([]byte{0xff}, 9), {0x80},
		{0x01, 0x00, 0x02, 0x02}, {0x03, 0x00, 0x02, 0x04, 0x80, 0x01}, {0x00}, {0x00, 0x00, 0x00, 0x00, 0x00, 0x00, 0x00, 0x00, 0x00, 0x00, 0x00, 0x00},
		append(bytes.Repeat([]byte{0xfe}, 30), 0x01),
	}
	c19Cmds = []string{"set", "get", "hset", "hget", "hdel", "sadd", "sismember", "srem", "lpush", "rpush", "lpop", "rpop", "zadd", "zscore", "del", "type", "restart",
		"hset", "sadd", "lpush", "rpush", "zadd", "lpop", "rpop", "hdel", "srem"}
)

func TestC19(t *testing.T) {
	st := kvh.StatsFor("C19")
	st.SetRule(c19Rule,
		"excluded by construction (counted): a command of another type, or Type, on a key whose aggregate was emptied by element removal - the statement does not say whether such a key still has a type (an expired string is absent for every command)",
		"TTLs are 0, +1h, -1h, the longest duration there is, or 30 ms; a key set with the 30 ms TTL is not looked at until a deliberate wait of 45 ms has passed (then it must have expired) or it has been overwritten - no outcome depends on the clock in the other direction",
		"user keys are <= 2 bytes and can never collide with the >= 9-byte internal element keys; 6 % of the hash values and list elements are empty: the reply of a read is then the same as for an absent element, the new/existing flags, sizes and pop order are not")
	defer finishProperty(st)
	c19AliasProbe(t, st)
	c19ExpiryRaceProbe(t, st)
	c19SharedService(t, st)
	checkCases(t, st, func(t *rapid.T) { c19Run(t, st) })
}

// c19AliasProbe replays the one input family that is excluded from the
// generated members because it is a recorded finding: a member whose bytes
// spell the internal "score key" of another (score, member) pair of the same
// sorted set - score text, member, 4-byte little-endian member length.
func c19AliasProbe(t *testing.T, st *kvh.Stats) {
	if !kvh.GetEnv().Mine(0) {
		return
	}
	r, f := newRedisRunner(kvh.DefaultOpt())
	if f != nil {
		report(t, st, &c19Case{Property: "C19", Kind: "c19", Opt: kvh.DefaultOpt()}, f)
	}
	defer r.cleanup()
	key, m := []byte("z"), []byte("x")
	alias := []byte("1x\x01\x00\x00\x00")
	var got []string
	isNew, err := r.dts.ZAdd(key, 1, m)
	got = append(got, fmt.Sprintf("ZAdd(z,1,x)=%v,%v", isNew, err))
	sc, err := r.dts.ZScore(key, alias)
	bad := err == nil
	got = append(got, fmt.Sprintf("ZScore(z,%q)=%v,%v (want not found)", alias, sc, err))
	isNew, err = r.dts.ZAdd(key, 7, alias)
	bad = bad || !isNew
	got = append(got, fmt.Sprintf("ZAdd(z,7,%q)=%v,%v (want true)", alias, isNew, err))
	_, _ = r.dts.ZAdd(key, 2, m)
	sc, err = r.dts.ZScore(key, alias)
	bad = bad || err != nil || sc != 7
	got = append(got, fmt.Sprintf("after ZAdd(z,2,x): ZScore(z,%q)=%v,%v (want 7)", alias, sc, err))
	st.Exclude("zset-members-spelling-a-score-key", 1)
	if bad {
		st.Known("zset-member-aliases-score-key", strings.Join(got, "; "))
		return
	}
	st.Label("zset-alias-probe-clean")
}

func c19Run(t *rapid.T, st *kvh.Stats) {
	opt := kvh.GenOpt(t, "opt", kvh.OptProfile{MMapPercent: 10, FileSizes: []int64{200, 4096, 1 << 20, 1 << 20}})
	c := &c19Case{Property: "C19", Kind: "c19", Opt: opt}
	r, f := newRedisRunner(opt)
	if f != nil {
		report(t, st, c, f)
	}
	defer r.cleanup()
	c.Packed = kvh.Pct(t, 50, "packed")
	r.packed = c.Packed
	if r.packed {
		st.Label("arguments-are-sub-slices-of-one-request-buffer")
	}
	kvh.SetInFlight(&kvh.InFlight{Property: "C19", Case: func() any { c.Cmds = r.cmds; return c }})
	defer kvh.SetInFlight(nil)
	t.Repeat(map[string]func(*rapid.T){
		"cmd": func(t *rapid.T) {
			cmd := rcmd{C: kvh.Pick(t, c19Cmds, "cmd")}
			if r.shortSinceSleep && kvh.Pct(t, 12, "sleep") {
				cmd.C = "sleep"
			}
			if cmd.C == "restart" {
				if !kvh.Pct(t, 50, "really") {
					cmd.C = "get"
				} else {
					o := kvh.GenOpt(t, "reopt", kvh.OptProfile{MMapPercent: 10, FileSizes: []int64{200, 4096, 1 << 20}})
					cmd.Opt = &o
				}
			}
			if cmd.C != "restart" && cmd.C != "sleep" {
				cmd.Key = kvh.Pick(t, c19Keys, "key")
			}
			switch cmd.C {
			case "set":
				cmd.V = []byte(fmt.Sprintf("s%d", kvh.U(t, 50, "v")))
				if kvh.Pct(t, 10, "emptyv") {
					cmd.V = []byte{}
				} else if kvh.Pct(t, 15, "binv") {
					// binary contents: what the bytes behind the type byte and the expiry look like must not matter
					cmd.V = kvh.Pick(t, c19BinaryValues, "binval")
				}
				cmd.TTL = kvh.Pick(t, []int{0, 0, 0, 1, -1, 2, 3}, "ttl")
				if cur := r.key(cmd.Key); cur.typ == "string" && kvh.Pct(t, 30, "samevalue") {
					// the value the key holds already, perhaps with another TTL ("persist by rewrite")
					cmd.V = append([]byte{}, cur.str...)
				}
			case "hset", "lpush", "rpush":
				cmd.V = []byte(fmt.Sprintf("e%d", kvh.U(t, 50, "v")))
				if kvh.Pct(t, 8, "bine") {
					cmd.V = kvh.Pick(t, c19BinaryValues, "binelem")
				} else if kvh.Pct(t, 6, "emptye") {
					// an empty element reads back like "no value", but the new/existing flags and the sizes still tell it from an absent one
					cmd.V = []byte{}
				}
			case "zadd":
				cmd.Score = kvh.Pick(t, c19Scores, "score")
				if kvh.Pct(t, 4, "infscore") {
					cmd.Score, cmd.Inf = 0, 1-2*kvh.U(t, 2, "infsign")
				}
			}
			switch cmd.C {
			case "hset", "hget", "hdel", "sadd", "sismember", "srem", "zadd", "zscore":
				cmd.F = kvh.Pick(t, c19Fields, "field")
			}
			if !r.admissible(&cmd) {
				st.Exclude("cross-type-command-on-emptied-aggregate", 1)
				r.excluded++
				t.Skip("reply not determined by the statement")
			}
			if f := r.step(cmd); f != nil {
				c.Cmds = r.cmds
				report(t, st, c, f)
			}
		},
	})
	st.Eval(1)
	for ty := range r.types {
		st.Label("type-" + ty)
	}
	lab := func(c bool, n string) {
		if c {
			st.Label(n)
		}
	}
	lab(r.restarts > 0, "restart")
	lab(r.sleeps > 0, "short-ttl-waited-out")
	lab(r.expiredOther > 0, "command-of-another-type-on-an-expired-string")
	lab(r.restartAfterAgg > 0, "restart-after-aggregate-update")
	lab(r.delRecreate > 0, "del-and-recreate")
	lab(r.wrongType > 0, "wrong-type-command")
	lab(r.crossType > 0, "set-over-aggregate")
	if len(r.types) >= 2 && (r.delRecreate > 0 || r.restartAfterAgg > 0) {
		st.NonTrivial(kvh.Hash64([]byte(fmt.Sprintf("%v", r.cmds))))
		if st.WantSample() {
			var lines []string
			for _, cm := range r.cmds {
				lines = append(lines, fmt.Sprintf("%s %q %q %q %v ttl=%d", cm.C, cm.Key, cm.F, cm.V, cm.Score, cm.TTL))
				if len(lines) > 40 {
					break
				}
			}
			st.Sample(map[string]any{"options": opt.String(), "cmds": lines})
		} else {
			st.Sample(nil)
		}
	}
}

func init() {
	replayers["c19"] = func(_ *kvh.Case, raw []byte) *kvh.Fail {
		var c c19Case
		if err := jsonUnmarshal(raw, &c); err != nil {
			return &kvh.Fail{Sig: "harness-bad-case", Msg: err.Error()}
		}
		r, f := newRedisRunner(c.Opt)
		if f != nil {
			return f
		}
		defer r.cleanup()
		r.packed = c.Packed
		for _, cm := range c.Cmds {
			if !r.admissible(&cm) {
				continue
			}
			if f := r.step(cm); f != nil {
				return f
			}
		}
		return nil
	}
}

// c19ExpiryRaceProbe owns one schedule of two clients that the sequential command histories cannot produce: a
// string has expired; one client reads it while another re-acquires it ("lease refreshed right at expiry"). The
// refresher's Set is placed inside the reader's Get, after the engine has looked the key up (hook get.indexed). The
// Set is acknowledged last, so from then on the key holds the fresh value - live and after a restart.
func c19ExpiryRaceProbe(t fataler, st *kvh.Stats) {
	if !kvh.GetEnv().Mine(0) {
		return
	}
	for round, ttl := range []time.Duration{-time.Hour, c19ShortTTL, -time.Nanosecond} {
		opt := kvh.DefaultOpt()
		opt.Index = int8(1 + round%3)
		cs := map[string]string{"property": "C19", "kind": "probe-c19-expiry-race", "note": "fixed schedule, see c19ExpiryRaceProbe"}
		r, f := newRedisRunner(opt)
		if f != nil {
			report(t, st, cs, f)
			return
		}
		key, fresh := []byte("lease"), []byte("fresh-holder")
		var got []string
		err := r.dts.Set(key, []byte("old-holder"), ttl)
		got = append(got, fmt.Sprintf("Set(lease, old-holder, %v)=%v", ttl, err))
		if ttl > 0 {
			time.Sleep(ttl + 15*time.Millisecond)
		}
		var once sync.Once
		var serr error
		setDone := make(chan struct{})
		waited := false
		gIO.SetOnPoint(func(name string, k []byte) {
			if name == "get.indexed" && string(k) == string(key) {
				once.Do(func() {
					// the other client runs in a goroutine of its own; the reader goes on when the Set is acknowledged - or when
					// it has come to wait for a lock the reader holds (a service that serialises its commands is as good as
					// one that does not: then the Set simply is acknowledged after the Get)
					go c19Refresher(r.dts, key, fresh, &serr, setDone)
					for {
						select {
						case <-setDone:
							return
						case <-time.After(time.Millisecond):
							if isLockWait(goroutineState("c19Refresher")) {
								waited = true
								return
							}
						}
					}
				})
			}
		})
		v1, err1 := r.dts.Get(key)
		gIO.SetOnPoint(nil)
		notReached := false
		once.Do(func() { notReached = true; close(setDone) }) // the Get never came by the hook point: nothing was started
		<-setDone
		if notReached {
			r.cleanup()
			st.Label("expiry-probe-not-reached")
			continue
		}
		if waited {
			st.Label("expired-string-re-set-while-a-get-of-another-client-holds-a-lock-(the-set-waits)")
		}
		got = append(got, fmt.Sprintf("Get(lease) with Set(lease, fresh-holder, 1h)=%v of another client started inside it (waited for the Get: %v) = (%q, %v)", serr, waited, v1, err1))
		v2, err2 := r.dts.Get(key)
		got = append(got, fmt.Sprintf("Get(lease) = (%q, %v)", v2, err2))
		bad := serr != nil || err2 != nil || string(v2) != string(fresh)
		if !bad {
			if cerr := r.dts.Close(); cerr != nil {
				bad = true
				got = append(got, fmt.Sprintf("Close=%v", cerr))
			}
			r.dts = nil
			if dts, oerr := datatype.NewDataTypeService(opt.KV(r.dir)); oerr != nil {
				bad = true
				got = append(got, fmt.Sprintf("reopen=%v", oerr))
			} else {
				r.dts = dts
				v3, err3 := r.dts.Get(key)
				got = append(got, fmt.Sprintf("after restart Get(lease) = (%q, %v)", v3, err3))
				bad = bad || err3 != nil || string(v3) != string(fresh)
			}
		}
		r.cleanup()
		st.Eval(1)
		st.Label("expired-string-re-set-inside-a-get-of-another-client")
		st.NonTrivial(kvh.Hash64([]byte(fmt.Sprintf("c19expiry|%d", round))))
		if bad {
			report(t, st, cs, &kvh.Fail{Sig: "acknowledged-set-lost-to-expiry", Msg: "a Set acknowledged while another client's Get of the expired key was in flight is gone: " + strings.Join(got, "; ")})
			return
		}
	}
}

//go:noinline
func c19Refresher(dts *datatype.DataTypeService, key, val []byte, err *error, done chan struct{}) {
	defer close(done)
	defer func() {
		if p := recover(); p != nil {
			*err = fmt.Errorf("panic: %v", p)
		}
	}()
	*err = dts.Set(key, val, time.Hour)
}

func init() {
	replayers["probe-c19-expiry-race"] = func(_ *kvh.Case, _ []byte) *kvh.Fail { return replayProbe(c19ExpiryRaceProbe, "C19") }
}

// ---- one service shared by several clients, each working on keys of its own (a server's goroutines: some run work
// queues, others sets, hashes, sorted sets). The keys are private, so every client's replies are those of its own
// sequential reference model whatever the other clients do at the same time.

type c19SharedCase struct {
	Property string  `json:"property"`
	Kind     string  `json:"kind"`
	Opt      kvh.Opt `json:"options"`
	Round    int     `json:"round"`
	Clients  int     `json:"clients"`
	Cmds     int     `json:"cmds"`
	// Tight: no mix of everything - the even clients run a work queue each (RPush, LPop, …), the odd ones a set each
	// (SAdd, SRem, …), as fast as they can
	Tight bool `json:"tight,omitempty"`
}

var c19SharedCmds = []string{"set", "get", "hset", "hget", "hdel", "sadd", "sismember", "srem", "lpush", "rpush", "lpop", "rpop", "zadd", "zscore", "del",
	"rpush", "lpop", "rpush", "lpop", "lpush", "rpop", "hset", "sadd", "zadd", "srem", "hdel"}

func runC19Shared(c *c19SharedCase) *kvh.Fail {
	r0, f := newRedisRunner(c.Opt)
	if f != nil {
		return f
	}
	defer r0.cleanup()
	fails := make([]*kvh.Fail, c.Clients)
	start := make(chan struct{})
	var wg sync.WaitGroup
	for i := 0; i < c.Clients; i++ {
		ri := &redisRunner{keys: map[string]*rkey{}, types: map[string]bool{}, deleted: map[string]bool{}, dts: r0.dts}
		wg.Add(1)
		go func(i int, ri *redisRunner) {
			defer wg.Done()
			<-start
			for j := 0; j < c.Cmds; j++ {
				h := kvh.Hash64([]byte(fmt.Sprintf("c19shared|%d|%d|%d", c.Round, i, j)))
				cmd := rcmd{C: c19SharedCmds[h%uint64(len(c19SharedCmds))], Key: []byte{byte('A' + i), byte('0' + (h>>8)%3)}}
				if c.Tight {
					cmd.C = [][]string{{"rpush", "lpop"}, {"sadd", "srem"}}[i%2][j%2]
					cmd.Key = []byte{byte('A' + i), '0'}
					h = uint64(j/2) * 0x10101010101 // the element pushed is the one popped next, the member added the one removed next
				}
				switch cmd.C {
				case "set":
					cmd.V = []byte(fmt.Sprintf("s%d", (h>>24)%50))
				case "hset", "lpush", "rpush":
					cmd.V = []byte(fmt.Sprintf("e%d", (h>>24)%50))
				case "zadd":
					cmd.Score = c19Scores[(h>>32)%13]
				}
				switch cmd.C {
				case "hset", "hget", "hdel", "sadd", "sismember", "srem", "zadd", "zscore":
					cmd.F = c19Fields[(h>>16)%uint64(len(c19Fields))]
				}
				if !ri.admissible(&cmd) {
					continue
				}
				if f := ri.step(cmd); f != nil {
					f.Msg = fmt.Sprintf("client %d of %d (keys %c0..%c2 are its own; the other clients work on theirs at the same time): %s", i, c.Clients, 'A'+i, 'A'+i, f.Msg)
					fails[i] = f
					return
				}
			}
		}(i, ri)
	}
	close(start)
	wg.Wait()
	for _, f := range fails {
		if f != nil {
			return f
		}
	}
	return nil
}

func c19SharedService(t *testing.T, st *kvh.Stats) {
	e := kvh.GetEnv()
	rounds := 24
	if e.Thorough() {
		rounds = 400
	}
	for i := 0; i < rounds; i++ {
		if !e.Mine(i) {
			continue
		}
		c := &c19SharedCase{Property: "C19", Kind: "c19shared", Opt: kvh.DefaultOpt(), Round: i, Clients: 2 + i%7, Cmds: 1500}
		c.Opt.Index = int8(1 + i%3)
		if i%4 == 1 {
			c.Opt.FileSize = 4096
		}
		if i%3 == 0 {
			c.Tight, c.Clients, c.Cmds = true, 8, 24000
		}
		kvh.SetInFlight(&kvh.InFlight{Property: "C19", Case: func() any { return c }})
		f := runC19Shared(c)
		kvh.SetInFlight(nil)
		if f != nil {
			report(t, st, c, f)
		}
		st.Eval(1)
		st.Label("one-service-shared-by-clients-with-keys-of-their-own")
		st.NonTrivial(kvh.Hash64([]byte(fmt.Sprintf("c19shared|%+v", *c))))
	}
}

func init() {
	replayers["c19shared"] = func(_ *kvh.Case, raw []byte) *kvh.Fail {
		var c c19SharedCase
		if err := jsonUnmarshal(raw, &c); err != nil {
			return &kvh.Fail{Sig: "harness-bad-case", Msg: err.Error()}
		}
		for i := 0; i < 10; i++ { // schedule dependent
			if f := runC19Shared(&c); f != nil {
				return f
			}
		}
		return nil
	}
}
