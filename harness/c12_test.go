package harness

import (
	"encoding/binary"
	"errors"
	"fmt"
	"hash/crc32"
	"os"
	"path/filepath"
	"runtime/debug"
	"sort"
	"strings"
	"testing"

	kv "github.com/XiXi-2024/xixi-kv"
	"pgregory.net/rapid"
	"verifharness/kvh"
)

// C12 — damaged bytes are detected or harmless, never served as data and
// never a panic.

const c12Rule = "small databases (3..12 generated ops incl. tombstones, committed batches, sometimes a multi-chunk value, a rotated file, a pending or adopted merge with hint file), closed cleanly; faults on *.data and *.hint files: EVERY single-bit flip of every byte of files <= 2 KiB (sampled bits of larger files), generated multi-byte overwrites, zero fill from every record start and block start, truncation to every length of small files, garbage appended; two injection modes: before Open (recovery/hint-load path) and under a live database (read path; truncations there at record and block boundaries, alternately with poisoned block buffers and with buffers primed with a validly checksummed decoy of the block that is cut); oracle: no panic anywhere; every key reads as its last written value or fails with an error (key-not-found for a live key, an older value, or a value for a deleted key count as wrong data); ListKeys/Fold agree with the reference map unless an error is returned; tolerated extra outcome for damage injected before Open into the NEWEST data file only, and only if the fault is a truncation or the damaged file ends in an INCOMPLETE record when read chunk by chunk (header cut, stated length past the end of the file, or the file ends after a First/Middle chunk): the dump equals the model after the leading mutations that lie entirely before the damaged byte (an interrupted append is indistinguishable from it, cf. C03); non-trivial = the fault lands inside the extent of a record; distinct = (database hash, mode, file, fault)"

var c12Profile = &kvh.GenProfile{
	Weights: map[string]int{
		"put": 55, "del": 14, "batch": 18, "merge": 4, "wipe": 2, "reopen": 5, "sync": 1,
	},
	MaxBatchOps: 4,
	Big:         false,
	ReopenSame:  true,
	OptProfile:  kvh.OptProfile{NoMMap: true, FileSizes: []int64{200, 1000, 1 << 20, 1 << 20}},
}

type c12Fault struct {
	Mode string `json:"mode"` // before-open | live
	File string `json:"file"` // relative to the image root, e.g. db/000000000.data
	Kind string `json:"kind"` // flip | overwrite | zero | truncate | append
	Off  int64  `json:"off"`
	Bit  int    `json:"bit,omitempty"`
	Len  int    `json:"len,omitempty"`
	Seed uint64 `json:"seed,omitempty"`
	// Decoy (live truncations): before every read the engine's pooled block buffers are left holding the block
	// the cut lies in, in a version in which every chunk carries a different payload under a VALID checksum - what
	// an earlier read of a file with the same layout would leave there. A reader that accepts a short read and
	// decodes the unfilled rest of its buffer then serves the decoy; a correct one reports the short read.
	Decoy bool `json:"decoy,omitempty"`
}

// c12DecoyBlock returns block blk of file content in which the payload of every chunk is altered (last byte
// inverted) and its checksum recomputed. The chunks are walked from the known record extents.
func c12DecoyBlock(content []byte, spans []recSpan, blk int64) []byte {
	lo, hi := blk*kvh.BlockSize, (blk+1)*kvh.BlockSize
	if lo >= int64(len(content)) {
		return nil
	}
	if hi > int64(len(content)) {
		hi = int64(len(content))
	}
	out := append([]byte(nil), content[lo:hi]...)
	for _, sp := range spans {
		pos := sp.start
		for pos < sp.end {
			if kvh.BlockSize-pos%kvh.BlockSize < kvh.ChunkHeader {
				pos += kvh.BlockSize - pos%kvh.BlockSize // tail padding
				continue
			}
			if pos+kvh.ChunkHeader > int64(len(content)) {
				break
			}
			l := int64(binary.LittleEndian.Uint16(content[pos+4 : pos+6]))
			end := pos + kvh.ChunkHeader + l
			if end > int64(len(content)) {
				break
			}
			if pos >= lo && end <= hi && l > 0 {
				c := out[pos-lo : end-lo]
				c[len(c)-1] ^= 0xff
				binary.LittleEndian.PutUint32(c[:4], crc32.ChecksumIEEE(c[4:]))
			}
			pos = end
		}
	}
	return out
}

type c12Case struct {
	Property string    `json:"property"`
	Kind     string    `json:"kind"`
	Opt      kvh.Opt   `json:"options"`
	Ops      []kvh.Op  `json:"ops"`
	Fault    *c12Fault `json:"fault,omitempty"` // replay: only this fault
}

type c12DB struct {
	c        *c12Case
	base     string // scratch base
	pristine string // pristine copy (db/, db-merge/)
	work     string // working copy
	model    map[string][]byte
	probe    map[string]struct{}
	states   []map[string][]byte // S_0..S_n
	extents  [][]mutExtent       // per mutation: (path relative to image root, end offset); start offsets in starts
	starts   [][]int64
	files    map[string][]byte // pristine bytes by relative path
	newest   string            // relative path of the newest data file
	recEnds  map[string][]recSpan
	hash     uint64
}

type recSpan struct{ start, end int64 }

// buildC12DB executes the ops, records per-mutation byte extents, closes the
// database cleanly and keeps a pristine copy.
func buildC12DB(c *c12Case, gen func(r *kvh.Runner) (kvh.Op, bool)) (*c12DB, *kvh.Fail) {
	r, f := kvh.NewRunner("C12", c.Opt, gIO)
	if f != nil {
		return nil, f
	}
	d := &c12DB{c: c, base: r.Base, files: map[string][]byte{}, recEnds: map[string][]recSpan{}}
	d.states = []map[string][]byte{{}}
	var cur []mutExtent
	var curStart []int64
	gIO.OnEvent = func(ev kvh.Event) {
		if ev.Kind == "write" && strings.HasPrefix(ev.Path, r.Dir+"/") && strings.HasSuffix(ev.Path, ".data") {
			fs, _ := gIO.Get(ev.Path)
			cur = append(cur, mutExtent{path: relTo(r.Base, ev.Path), end: fs.Logical + ev.N})
			curStart = append(curStart, fs.Logical)
		}
	}
	defer func() { gIO.OnEvent = nil }()
	step := func(op kvh.Op) *kvh.Fail {
		cur, curStart = nil, nil
		muts := r.F.Muts
		if f := r.Step(op); f != nil {
			return f
		}
		if r.F.Muts > muts {
			snap := map[string][]byte{}
			for k, v := range r.Model {
				snap[k] = v
			}
			d.states = append(d.states, snap)
			d.extents = append(d.extents, cur)
			d.starts = append(d.starts, curStart)
		}
		return nil
	}
	if gen != nil {
		for {
			op, ok := gen(r)
			if !ok {
				break
			}
			c.Ops = append(c.Ops, op)
			if f := step(op); f != nil {
				r.Cleanup()
				return nil, f
			}
		}
	} else {
		for _, op := range c.Ops {
			if f := step(op); f != nil {
				r.Cleanup()
				return nil, f
			}
		}
	}
	if f := r.CloseOnly(); f != nil {
		r.Cleanup()
		return nil, f
	}
	d.model, d.probe = r.Model, r.Probe
	d.pristine = filepath.Join(r.Base, "pristine")
	d.work = filepath.Join(r.Base, "work")
	for _, sub := range []string{"db", "db-merge"} {
		ents, err := os.ReadDir(filepath.Join(r.Base, sub))
		if err != nil {
			continue
		}
		_ = os.MkdirAll(filepath.Join(d.pristine, sub), 0o755)
		for _, e := range ents {
			if e.Name() == ".lock" || e.IsDir() {
				continue
			}
			b, err := os.ReadFile(filepath.Join(r.Base, sub, e.Name()))
			if err != nil {
				continue
			}
			rel := filepath.Join(sub, e.Name())
			d.files[rel] = b
			_ = os.WriteFile(filepath.Join(d.pristine, rel), b, 0o644)
			if sub == "db" && strings.HasSuffix(rel, ".data") && rel > d.newest {
				d.newest = rel
			}
		}
	}
	// record spans of every data/hint file (for the non-trivial rule)
	gIO.Muted(func() {
		for rel := range d.files {
			if strings.HasSuffix(rel, ".data") {
				fs := kvh.ScanDataFile(filepath.Join(d.pristine, rel), -1, r.Base)
				for _, rec := range fs.Records {
					s := int64(rec.Pos.BlockID)*kvh.BlockSize + int64(rec.Pos.Offset)
					d.recEnds[rel] = append(d.recEnds[rel], recSpan{s, s + int64(rec.Pos.Size)})
				}
			}
		}
	})
	var parts [][]byte
	rels := d.sortedFiles()
	for _, rel := range rels {
		parts = append(parts, []byte(rel), d.files[rel])
	}
	d.hash = kvh.Hash64(parts...)
	gIO.Forget(r.Base)
	return d, nil
}

func (d *c12DB) sortedFiles() []string {
	var rels []string
	for rel := range d.files {
		rels = append(rels, rel)
	}
	sort.Strings(rels)
	return rels
}

func (d *c12DB) cleanup() { _ = os.RemoveAll(d.base) }

// restore rebuilds the working copy from the pristine bytes.
func (d *c12DB) restore() {
	_ = os.RemoveAll(d.work)
	for rel, b := range d.files {
		p := filepath.Join(d.work, rel)
		_ = os.MkdirAll(filepath.Dir(p), 0o755)
		_ = os.WriteFile(p, b, 0o644)
	}
	gIO.Forget(d.work)
}

// damaged returns the damaged content of the fault's file.
func (d *c12DB) damaged(f *c12Fault) []byte { return damageBytes(d.files[f.File], f) }

// damageBytes applies the fault to a copy of orig.
func damageBytes(orig []byte, f *c12Fault) []byte {
	b := append([]byte(nil), orig...)
	switch f.Kind {
	case "flip":
		if f.Off < int64(len(b)) {
			b[f.Off] ^= 1 << uint(f.Bit)
		}
	case "overwrite":
		g := kvh.GenValue(f.Seed, f.Len)
		for i := 0; i < f.Len && f.Off+int64(i) < int64(len(b)); i++ {
			if b[f.Off+int64(i)] == g[i] {
				g[i] ^= 0x5a
			}
			b[f.Off+int64(i)] = g[i]
		}
	case "zero":
		for i := 0; i < f.Len && f.Off+int64(i) < int64(len(b)); i++ {
			b[f.Off+int64(i)] = 0
		}
	case "truncate":
		if f.Off < int64(len(b)) {
			b = b[:f.Off]
		}
	case "append":
		b = append(b, kvh.GenValue(f.Seed, f.Len)...)
	}
	return b
}

func (d *c12DB) inRecord(f *c12Fault) bool {
	if strings.HasSuffix(f.File, ".hint") {
		return f.Kind != "append"
	}
	if f.Kind == "append" {
		return false
	}
	for _, s := range d.recEnds[f.File] {
		if f.Off >= s.start && f.Off < s.end {
			return true
		}
	}
	return false
}

// c12TailClass reads the bytes of a data file chunk by chunk, as the format is stated, up to the first chunk
// that is not intact and says what is wrong there: "incomplete" - the file ends inside the chunk (its header is
// cut, its stated length passes the end of the file, or the file ends after a First/Middle chunk), which is what an
// interrupted append leaves behind; "corrupt" - the chunk is all there but its checksum does not match (or it is
// cut short by a block that is not the last one); "clean" - every chunk is intact.
func c12TailClass(b []byte) string {
	n := int64(len(b))
	blk, off, cnt := int64(0), int64(0), 0
	for {
		base := blk * kvh.BlockSize
		if base >= n || off >= min(n-base, kvh.BlockSize) {
			if cnt > 0 {
				return "incomplete"
			}
			return "clean"
		}
		size := min(n-base, kvh.BlockSize)
		avail := b[base+off : base+size]
		short := "corrupt"
		if base+size >= n {
			short = "incomplete"
		}
		if len(avail) < kvh.ChunkHeader {
			return short
		}
		end := int64(kvh.ChunkHeader) + int64(binary.LittleEndian.Uint16(avail[4:6]))
		if end > int64(len(avail)) {
			return short
		}
		if binary.LittleEndian.Uint32(avail[:4]) != crc32.ChecksumIEEE(avail[4:end]) {
			return "corrupt"
		}
		cnt++
		if typ := avail[6]; typ == 0 || typ == 3 { // Full, Last
			off += end
			if off+kvh.ChunkHeader >= kvh.BlockSize {
				blk, off = blk+1, 0
			}
			cnt = 0
			continue
		}
		blk, off = blk+1, 0
	}
}

// toleratedPrefix returns j such that S_j is the tolerated outcome for damage
// at offset off of the newest data file (-1 if no tolerance applies).
func (d *c12DB) toleratedPrefix(f *c12Fault) int {
	if f.Mode != "before-open" || f.File != d.newest {
		return -1
	}
	// only an image that ends in an INCOMPLETE record can be taken for an interrupted append; a complete chunk
	// with a wrong checksum (zeroed or overwritten bytes with valid records behind them) cannot
	// (a truncation IS what an interrupted append leaves, wherever it cuts)
	if f.Kind != "truncate" && c12TailClass(d.damaged(f)) != "incomplete" {
		return -1
	}
	j := 0
	for i := range d.extents {
		ok := true
		for _, e := range d.extents[i] {
			if e.path == d.newest && e.end > f.Off {
				ok = false
				break
			}
		}
		if !ok {
			break
		}
		j++
	}
	return j
}

func sameMap(a, b map[string][]byte) bool {
	if len(a) != len(b) {
		return false
	}
	for k, v := range a {
		w, ok := b[k]
		if !ok || !(len(v) == 0 && len(w) == 0 || string(v) == string(w)) {
			return false
		}
	}
	return true
}

// checkFault injects one fault and applies the oracle.
func (d *c12DB) checkFault(f *c12Fault, opt kvh.Opt) (fail *kvh.Fail) {
	defer func() {
		if p := recover(); p != nil {
			fail = &kvh.Fail{Sig: "panic-on-damaged-bytes", Msg: fmt.Sprintf("%+v: %v\n%s", *f, p, tail3000(debug.Stack()))}
		}
	}()
	where := fmt.Sprintf("fault %s %s at offset %d (bit %d len %d) of %s [%s]", f.Kind, f.Mode, f.Off, f.Bit, f.Len, f.File, f.Mode)
	d.restore()
	kvh.PoisonPools(8)
	path := filepath.Join(d.work, f.File)
	if f.Mode == "before-open" {
		if err := os.WriteFile(path, d.damaged(f), 0o644); err != nil {
			return &kvh.Fail{Sig: "harness", Msg: err.Error()}
		}
	}
	db, err := kv.Open(opt.KV(filepath.Join(d.work, "db")))
	if err != nil {
		if f.Mode == "live" {
			return &kvh.Fail{Sig: "harness-open", Msg: "pristine copy does not open: " + err.Error()}
		}
		return nil // detected: an error is a legal outcome
	}
	defer func() {
		if db == nil {
			return
		}
		func() {
			defer func() { _ = recover() }()
			_ = db.Close()
		}()
	}()
	var decoy []byte
	if f.Mode == "live" {
		// damage what is on disk NOW (Open may have adopted a pending merge and replaced the file)
		cur, err := os.ReadFile(path)
		if err != nil || f.Off >= int64(len(cur)) {
			return nil // the file is gone or shorter after adoption: nothing to damage
		}
		if f.Kind == "truncate" {
			// the file shrinks under the open database (never through a call that could extend or sync it)
			if err := os.Truncate(path, f.Off); err != nil {
				return &kvh.Fail{Sig: "harness", Msg: err.Error()}
			}
			if f.Decoy {
				decoy = c12DecoyBlock(cur, d.recEnds[f.File], f.Off/kvh.BlockSize)
			}
		} else {
			fd, err := os.OpenFile(path, os.O_WRONLY, 0)
			if err != nil {
				return &kvh.Fail{Sig: "harness", Msg: err.Error()}
			}
			dm := damageBytes(cur, f)
			_, err = fd.WriteAt(dm[f.Off:], f.Off)
			fd.Close()
			if err != nil {
				return &kvh.Fail{Sig: "harness", Msg: err.Error()}
			}
		}
	}
	// read everything
	got := map[string][]byte{}
	errs := map[string]error{}
	keys := db.ListKeys()
	listed := map[string]bool{}
	for _, k := range keys {
		listed[string(k)] = true
	}
	all := map[string]bool{}
	for k := range d.model {
		all[k] = true
	}
	for k := range d.probe {
		all[k] = true
	}
	for k := range listed {
		all[k] = true
	}
	for k := range all {
		if decoy != nil {
			kvh.FillBlockPool(4, decoy)
		}
		v, err := db.Get([]byte(k))
		if err != nil {
			errs[k] = err
		} else {
			got[k] = v
		}
	}
	// tolerated outcome: a prefix of whole mutations before the damage (newest file, before Open)
	if j := d.toleratedPrefix(f); j >= 0 && j < len(d.states) {
		clean := true
		for _, e := range errs {
			if !errors.Is(e, kv.ErrKeyNotFound) {
				clean = false
			}
		}
		if clean && sameMap(got, d.states[j]) && len(listed) == len(d.states[j]) {
			// tolerated; what was accepted must still survive one more write and a clean restart
			if fail := d.continueAfterOpen(db, opt, got, where); fail != nil {
				return fail
			}
			db = nil
			return nil
		}
	}
	for k := range all {
		want, live := d.model[k]
		v, ok := got[k]
		switch {
		case live && ok:
			if !(len(v) == 0 && len(want) == 0) && string(v) != string(want) {
				return &kvh.Fail{Sig: "damaged-bytes-served-as-data", Msg: fmt.Sprintf("%s: Get(%q) returned %s, the value written last is %s", where, k, kvh.ValueDigest(v), kvh.ValueDigest(want))}
			}
		case live && !ok:
			if errors.Is(errs[k], kv.ErrKeyNotFound) {
				return &kvh.Fail{Sig: "live-key-silently-lost", Msg: fmt.Sprintf("%s: Get(%q) reports key-not-found although the key is live (the damage went undetected and dropped it)", where, k)}
			}
		case !live && ok:
			return &kvh.Fail{Sig: "deleted-key-resurrected", Msg: fmt.Sprintf("%s: Get(%q) returned %s although the key's last write was a delete (or it was never written)", where, k, kvh.ValueDigest(v))}
		}
	}
	for k := range listed {
		if _, live := d.model[k]; !live {
			return &kvh.Fail{Sig: "deleted-key-resurrected", Msg: fmt.Sprintf("%s: ListKeys contains %q which is not live", where, k)}
		}
	}
	for k := range d.model {
		if !listed[k] {
			return &kvh.Fail{Sig: "live-key-silently-lost", Msg: fmt.Sprintf("%s: ListKeys misses the live key %q", where, k)}
		}
	}
	if f.Mode == "before-open" {
		// whatever this Open accepted must stay true: one more write, a clean restart, and the same mapping (plus that
		// write) must come back - a recovery that leaves half of a damaged record behind poisons later appends
		if fail := d.continueAfterOpen(db, opt, got, where); fail != nil {
			return fail
		}
		db = nil
		return nil
	}
	var foldBad *kvh.Fail
	if decoy != nil {
		kvh.FillBlockPool(4, decoy)
	}
	_ = db.Fold(func(k, v []byte) bool {
		want, live := d.model[string(k)]
		if !live || (!(len(v) == 0 && len(want) == 0) && string(v) != string(want)) {
			foldBad = &kvh.Fail{Sig: "damaged-bytes-served-as-data", Msg: fmt.Sprintf("%s: Fold passed %q=%s, reference %s (live %v)", where, k, kvh.ValueDigest(v), kvh.ValueDigest(want), live)}
			return false
		}
		return true
	})
	return foldBad
}

// continueAfterOpen: Put, Close, Open; the mapping must be what the first Open showed plus the new write.
// Reads that failed with an error in the first Open are allowed to fail again (or to succeed with the value
// the reference knows); reads that succeeded must succeed with the same bytes.
func (d *c12DB) continueAfterOpen(db *kv.DB, opt kvh.Opt, got map[string][]byte, where string) *kvh.Fail {
	cv := kvh.GenValue(4242, 11)
	if err := db.Put([]byte("~continuation"), cv); err != nil {
		_ = db.Close()
		return nil // an error is a legal outcome
	}
	if err := db.Close(); err != nil {
		return nil
	}
	db2, err := kv.Open(opt.KV(filepath.Join(d.work, "db")))
	if err != nil {
		return nil // failing with an error is a legal outcome under C12 (C03 owns recoverability after an interrupted append)
	}
	defer func() {
		func() {
			defer func() { _ = recover() }()
			_ = db2.Close()
		}()
	}()
	v, err := db2.Get([]byte("~continuation"))
	if err != nil || string(v) != string(cv) {
		return &kvh.Fail{Sig: "write-after-damaged-open-lost", Msg: fmt.Sprintf("%s: a Put acknowledged after the Open of the damaged directory reads back as (%s, %v) after a clean restart", where, kvh.ValueDigest(v), err)}
	}
	for k, want := range got {
		v, err := db2.Get([]byte(k))
		if err != nil {
			return &kvh.Fail{Sig: "value-changes-after-restart-of-damaged-db", Msg: fmt.Sprintf("%s: Get(%q) succeeded after the first Open; after one write and a clean restart it fails: %v", where, k, err)}
		}
		if !(len(v) == 0 && len(want) == 0) && string(v) != string(want) {
			return &kvh.Fail{Sig: "damaged-bytes-served-as-data", Msg: fmt.Sprintf("%s: Get(%q) returned %s after the first Open and %s after one write and a clean restart", where, k, kvh.ValueDigest(want), kvh.ValueDigest(v))}
		}
	}
	for _, k := range db2.ListKeys() {
		if _, ok := got[string(k)]; !ok && string(k) != "~continuation" {
			if _, live := d.model[string(k)]; !live {
				return &kvh.Fail{Sig: "deleted-key-resurrected", Msg: fmt.Sprintf("%s: after one write and a clean restart ListKeys contains %q, which is not live", where, k)}
			}
		}
	}
	return nil
}

func tail3000(b []byte) string {
	if len(b) > 3000 {
		return string(b[:3000])
	}
	return string(b)
}

// faults enumerates the faults of one database.
func (d *c12DB) faults(seed uint64, thorough bool) []*c12Fault {
	var out []*c12Fault
	for _, rel := range d.sortedFiles() {
		if !strings.HasSuffix(rel, ".data") && !strings.HasSuffix(rel, ".hint") {
			continue
		}
		n := int64(len(d.files[rel]))
		for _, mode := range []string{"before-open", "live"} {
			if mode == "live" && (strings.HasSuffix(rel, ".hint") || strings.HasPrefix(rel, "db-merge/")) {
				continue // not read by a live database
			}
			// bit flips: exhaustive for small files, sampled for large ones
			limit := int64(2048)
			if thorough {
				limit = 8192
			}
			if n <= limit {
				for off := int64(0); off < n; off++ {
					for bit := 0; bit < 8; bit++ {
						out = append(out, &c12Fault{Mode: mode, File: rel, Kind: "flip", Off: off, Bit: bit})
					}
				}
			} else {
				// every bit of the first 40 bytes of each 32 KiB block and of each record start, plus a stride
				seen := map[int64]bool{}
				add := func(off int64) {
					if off >= 0 && off < n && !seen[off] {
						seen[off] = true
						for bit := 0; bit < 8; bit++ {
							out = append(out, &c12Fault{Mode: mode, File: rel, Kind: "flip", Off: off, Bit: bit})
						}
					}
				}
				for _, s := range d.recEnds[rel] {
					for i := int64(0); i < 24; i++ {
						add(s.start + i)
					}
					add(s.end - 1)
				}
				for b := int64(0); b < n; b += kvh.BlockSize {
					for i := int64(0); i < 16; i++ {
						add(b + i)
					}
					add(b + kvh.BlockSize - 1)
				}
				stride := int64(997)
				for off := int64(seed % 997); off < n; off += stride {
					add(off)
				}
			}
			// zero fill (a lost page, a hole): from every record start and every block start, 7 bytes / 64 bytes / to the
			// end of the record
			zs := map[[2]int64]bool{}
			for _, sp := range d.recEnds[rel] {
				zs[[2]int64{sp.start, 7}], zs[[2]int64{sp.start, 64}], zs[[2]int64{sp.start, sp.end - sp.start}] = true, true, true
			}
			for bo := int64(0); bo < n; bo += kvh.BlockSize {
				zs[[2]int64{bo, 7}], zs[[2]int64{bo, 4096}] = true, true
			}
			var zl [][2]int64
			for z := range zs {
				if z[0] < n && z[1] > 0 {
					zl = append(zl, z)
				}
			}
			sort.Slice(zl, func(i, j int) bool { return zl[i][0] < zl[j][0] || zl[i][0] == zl[j][0] && zl[i][1] < zl[j][1] })
			for _, z := range zl {
				out = append(out, &c12Fault{Mode: mode, File: rel, Kind: "zero", Off: z[0], Len: int(z[1])})
			}
			// multi-byte overwrites
			for i := uint64(0); i < 24 && n > 0; i++ {
				h := kvh.Hash64([]byte(fmt.Sprintf("%d|%s|%d", seed, rel, i)))
				out = append(out, &c12Fault{Mode: mode, File: rel, Kind: "overwrite", Off: int64(h % uint64(n)), Len: 2 + int(h>>32)%15, Seed: h})
			}
			// truncation to every length of small files (sampled for large ones)
			if mode == "before-open" {
				step := int64(1)
				if n > limit {
					step = n / 200
				}
				cut := map[int64]bool{}
				for l := int64(0); l < n; l += step {
					cut[l] = true
				}
				if n > limit {
					// large files: every block boundary and every record start/end, each with its neighbours
					for b := int64(kvh.BlockSize); b < n+kvh.BlockSize; b += kvh.BlockSize {
						for _, dl := range []int64{-8, -7, -1, 0, 1, 7, 8} {
							cut[b+dl] = true
						}
					}
					for _, s := range d.recEnds[rel] {
						for _, dl := range []int64{-1, 0, 1} {
							cut[s.start+dl] = true
							cut[s.end+dl] = true
						}
					}
				}
				var cuts []int64
				for l := range cut {
					if l >= 0 && l < n {
						cuts = append(cuts, l)
					}
				}
				sort.Slice(cuts, func(i, j int) bool { return cuts[i] < cuts[j] })
				for _, l := range cuts {
					out = append(out, &c12Fault{Mode: mode, File: rel, Kind: "truncate", Off: l})
				}
				for i, l := range []int{1, 6, 7, 8, 40, kvh.BlockSize} {
					out = append(out, &c12Fault{Mode: mode, File: rel, Kind: "append", Off: n, Len: l, Seed: seed + uint64(i)})
				}
			} else {
				// the file shrinks under the open database: at every record start and end (+-1), every block boundary
				// and a stride in between; alternately with poisoned and with decoy-primed block buffers
				cut := map[int64]bool{0: true, 1: true, 7: true}
				for _, sp := range d.recEnds[rel] {
					for _, dl := range []int64{-1, 0, 1, 7, 8} {
						cut[sp.start+dl] = true
					}
					cut[sp.end-1] = true
					cut[(sp.start+sp.end)/2] = true
				}
				for b := int64(kvh.BlockSize); b < n; b += kvh.BlockSize {
					cut[b-1], cut[b], cut[b+1] = true, true, true
				}
				var cuts []int64
				for l := range cut {
					if l >= 0 && l < n {
						cuts = append(cuts, l)
					}
				}
				sort.Slice(cuts, func(i, j int) bool { return cuts[i] < cuts[j] })
				for i, l := range cuts {
					out = append(out, &c12Fault{Mode: mode, File: rel, Kind: "truncate", Off: l, Decoy: i%3 != 2})
				}
			}
		}
	}
	return out
}

func TestC12(t *testing.T) {
	st := kvh.StatsFor("C12")
	st.SetRule(c12Rule,
		"faults hit *.data and *.hint files only; no adversarially re-checksummed content (CRC-32 leaves a 2^-32 blind spot per multi-bit fault)",
		"excluded by construction (counted): truncating a ROTATED data file exactly at a record boundary, which no reader of this format can tell from a legitimately shorter log",
		"evaluations counts injected faults")
	defer finishProperty(st)
	checkCases(t, st, func(t *rapid.T) { c12Run(t, st) })
}

func c12Run(t *rapid.T, st *kvh.Stats) {
	e := kvh.GetEnv()
	c := &c12Case{Property: "C12", Kind: "c12"}
	c.Opt = kvh.GenOpt(t, "opt", c12Profile.OptProfile)
	c.Opt.Shards = kvh.Pick(t, []int{1, 2, 16}, "shards") // opening is the hot path here
	pool := kvh.GenKeyPool(t, false)
	n := 3 + kvh.U(t, 10, "nops")
	withBig := kvh.Pct(t, 25, "big")
	if withBig && kvh.Pct(t, 70, "bigsamefile") {
		c.Opt.FileSize = 1 << 20 // the multi-block record and what follows share the newest file
	}
	bigAt := 1 + kvh.U(t, 2, "bigat")
	bigBlocks := 1 + kvh.U(t, 2, "bigblocks")
	i := 0
	// the database is closed right after a Merge: the next Open adopts it and takes the index from the hint file
	finalMerge := kvh.Pct(t, 25, "finalmerge")
	if kvh.Pct(t, 20, "deepshape") {
		// a finished, not yet adopted merge whose output spans several files, one of them holding a multi-block
		// record: the adopting Open takes the positions in the lower rewritten files from the hint file unchecked
		withBig, finalMerge = true, true
		c.Opt.FileSize = kvh.Pick(t, []int64{200, 1000, 4096}, "deepsize")
	}
	d, f := buildC12DB(c, func(r *kvh.Runner) (kvh.Op, bool) {
		if i >= n {
			if finalMerge {
				finalMerge = false
				return kvh.Op{K: "merge"}, true
			}
			return kvh.Op{}, false
		}
		i++
		if withBig && i == bigAt {
			// a record of 2 or 3 blocks; as the first record of the file its first chunk fills a whole block, and a
			// 3-block record has a Middle chunk that does (chunk length 0x7ff9, the largest the format produces)
			return kvh.Op{K: "put", Key: []byte("big"), VLen: bigBlocks*kvh.BlockSize + kvh.U(t, 2000, "biglen"), VSeed: r.NextSeed()}, true
		}
		op := kvh.GenOp(t, r, pool, c12Profile)
		if op.K == "put" && op.VLen > 300 {
			op.VLen = op.VLen % 300
		}
		if op.K == "batch" {
			for j := range op.Ops {
				if op.Ops[j].VLen > 300 {
					op.Ops[j].VLen %= 300
				}
			}
		}
		return op, true
	})
	if f != nil {
		report(t, st, c, f)
	}
	defer d.cleanup()
	seed := uint64(kvh.U(t, 1<<16, "faultseed"))
	faults := d.faults(seed, e.Thorough())
	excluded := int64(0)
	nontriv := 0
	for i, ft := range faults {
		if i%256 == 0 && e.PastSoftDeadline() {
			st.ExtraAdd("faults_not_injected_after_soft_deadline", int64(len(faults)-i))
			break
		}
		// exclusion: truncation of a rotated file exactly at a record boundary
		if ft.Kind == "truncate" && ft.File != d.newest && strings.HasSuffix(ft.File, ".data") {
			boundary := ft.Off == 0
			for _, s := range d.recEnds[ft.File] {
				if s.end == ft.Off {
					boundary = true
				}
			}
			if boundary {
				excluded++
				continue
			}
		}
		if f := d.checkFault(ft, c.Opt); f != nil {
			cc := *c
			cc.Fault = ft
			report(t, st, &cc, f)
		}
		st.Eval(1)
		st.Label("fault-" + ft.Kind + "-" + ft.Mode)
		if d.inRecord(ft) {
			nontriv++
			st.NonTrivial(kvh.Hash64([]byte(fmt.Sprintf("%d|%+v", d.hash, *ft))))
		}
	}
	if excluded > 0 {
		st.Exclude("truncation-of-rotated-file-at-record-boundary", excluded)
	}
	st.ExtraAdd("databases", 1)
	if len(d.files) > 2 {
		st.Label("db-with->=2-data-or-hint-files")
	}
	for rel := range d.files {
		if strings.HasSuffix(rel, ".hint") {
			st.Label("db-with-hint-file")
		}
		if strings.HasPrefix(rel, "db-merge/") {
			st.Label("db-with-pending-merge")
		}
	}
	if withBig {
		st.Label("db-with-multi-chunk-value")
	}
	pendingData, pendingBig := 0, false
	for rel, b := range d.files {
		if strings.HasPrefix(rel, "db-merge/") && strings.HasSuffix(rel, ".data") {
			pendingData++
			if len(b) > kvh.BlockSize {
				pendingBig = true
			}
		}
	}
	if pendingData >= 2 {
		st.Label("pending-merge-with->=2-rewritten-files")
		if pendingBig {
			st.Label("pending-merge-with->=2-rewritten-files-one-multi-block")
		}
	}
	if st.WantSample() {
		sizes := map[string]int{}
		for rel, b := range d.files {
			sizes[rel] = len(b)
		}
		st.Sample(map[string]any{"database": kvh.Abbrev(c.Opt, c.Ops), "files": sizes, "faults_injected": len(faults), "in_record": nontriv, "example_fault": faults[len(faults)/2]})
	} else {
		st.Sample(nil)
	}
}

func init() {
	replayers["c12fuzz"] = func(_ *kvh.Case, raw []byte) *kvh.Fail {
		var c struct {
			Target  string `json:"target"`
			Content []byte `json:"content"`
		}
		if err := jsonUnmarshal(raw, &c); err != nil {
			return &kvh.Fail{Sig: "harness-bad-case", Msg: err.Error()}
		}
		return replayFuzzOpen(c.Target, c.Content)
	}
	replayers["c12"] = func(_ *kvh.Case, raw []byte) *kvh.Fail {
		var c c12Case
		if err := jsonUnmarshal(raw, &c); err != nil {
			return &kvh.Fail{Sig: "harness-bad-case", Msg: err.Error()}
		}
		ft := c.Fault
		d, f := buildC12DB(&c, nil)
		if f != nil {
			return f
		}
		defer d.cleanup()
		if ft != nil {
			if f := d.checkFault(ft, c.Opt); f != nil {
				return f
			}
			// Merge walks the rotated files in Go map order, so which rewritten file holds which record differs
			// between executions: try the pinned fault on every file, over a few rebuilt databases
			for i := 0; i < 6; i++ {
				d2, f := buildC12DB(&c, nil)
				if f != nil {
					return f
				}
				for rel := range d2.files {
					if filepath.Ext(rel) != filepath.Ext(ft.File) || int64(len(d2.files[rel])) <= ft.Off {
						continue
					}
					x := *ft
					x.File = rel
					if os.Getenv("VERIF_DEBUG") != "" {
						fmt.Printf("DEBUG c12 replay attempt %d: %s (%d bytes) fault %+v\n", i, rel, len(d2.files[rel]), x)
					}
					if f := d2.checkFault(&x, c.Opt); f != nil {
						d2.cleanup()
						return f
					}
				}
				d2.cleanup()
			}
			return nil
		}
		for _, x := range d.faults(1, false) {
			if f := d.checkFault(x, c.Opt); f != nil {
				return f
			}
		}
		return nil
	}
}
