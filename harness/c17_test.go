package harness

import (
	"errors"
	"fmt"
	"os"
	"path/filepath"
	"strings"
	"testing"

	kv "github.com/XiXi-2024/xixi-kv"
	"github.com/XiXi-2024/xixi-kv/datafile"
	"pgregory.net/rapid"
	"verifharness/kvh"
)

// C17 — Stat and space accounting are exact; data files respect the limit.

var c17Profile = &kvh.GenProfile{
	Weights: map[string]int{
		"put": 40, "del": 14, "batch": 18, "merge": 6, "wipe": 2, "reopen": 10, "get": 2, "sync": 1, "stat": 3, "tear": 3,
	},
	MaxBatchOps: 10,
	Big:         true,
	OptProfile:  kvh.OptProfile{MMapPercent: 15, FileSizes: []int64{64, 200, 1000, 4096, 40000, 70000, 1 << 20}},
}

const c17Rule = "C01/C02 histories (Put, Delete, overwrites, batches incl. oversized ones, rotations, merges, reopens with changed limits) with Stat() inspected after every step; ground truth recomputed by scanning copies of the logical bytes of all data files with the package's own reader and applying recovery semantics in the harness: KeyNum == |model|, DataFileNum == number of .data files, 0 <= Reclaimable <= DiskSize, DiskSize - Reclaimable == sum of the sizes of the records the live keys resolve to, Merge never returns ErrNoEnoughSpaceForMerge, and a file larger than the largest limit in force while it was active holds one record (+ a batch's sealing record); non-trivial = >= 1 overwrite or delete and >= 1 batch or restart; distinct = hash of (options, ops)"

type c17State struct {
	cache     *kvh.ScanCache
	limit     map[string]int64 // path -> largest DataFileSize in force while the file was the active one
	mergeLim  int64
	mergeNon  uint32
	mergeSeen bool
}

func init() {
	historySetups["C17"] = func(r *kvh.Runner) {
		s := &c17State{cache: kvh.NewScanCache(), limit: map[string]int64{}}
		r.AfterStep = append(r.AfterStep, func(r *kvh.Runner, op *kvh.Op) *kvh.Fail { return c17Check(r, op, s) })
	}
}

func TestC17(t *testing.T) {
	st := kvh.StatsFor("C17")
	st.SetRule(c17Rule+" || "+c17cRule,
		"sizes are compared as the difference DiskSize - ReclaimableSize (the statement's equation), not as absolute values",
		"the free-space test of Merge uses the real file system (tens of GB free here), so ErrNoEnoughSpaceForMerge can only come from drifted counters",
		"bounds as C01")
	defer finishProperty(st)
	t.Run("histories", func(t *testing.T) {
		checkCases(t, st, func(t *rapid.T) {
			runHistoryCase(t, "C17", c17Profile, func(r *kvh.Runner) bool {
				return r.F.Rewrites >= 1 && (r.F.Batches >= 1 || r.F.Reopens >= 1)
			})
		})
	})
	t.Run("concurrent-stat", func(t *testing.T) { c17Concurrent(t, st) })
}

func c17Check(r *kvh.Runner, op *kvh.Op, s *c17State) *kvh.Fail {
	stat := r.DB.Stat()
	if stat.ReclaimableSize < 0 || stat.ReclaimableSize > stat.DiskSize {
		return &kvh.Fail{Sig: "stat-bounds", Msg: fmt.Sprintf("after %s: ReclaimableSize=%d DiskSize=%d violates 0 <= Reclaimable <= DiskSize", op.K, stat.ReclaimableSize, stat.DiskSize)}
	}
	var scans []*kvh.FileScan
	var err error
	gIO.Muted(func() {
		scans, err = kvh.ScanDir(r.Dir, func(path string) int64 {
			if fs, ok := gIO.Get(path); ok {
				return fs.Logical
			}
			return -1
		}, r.Base, s.cache)
	})
	if err != nil {
		return &kvh.Fail{Sig: "harness-scan", Msg: err.Error()}
	}
	if stat.DataFileNum != len(scans) {
		return &kvh.Fail{Sig: "stat-datafilenum", Msg: fmt.Sprintf("after %s: Stat().DataFileNum = %d, the directory holds %d data files", op.K, stat.DataFileNum, len(scans))}
	}
	rp, err := kvh.ReplayScans(scans)
	if err != nil {
		return &kvh.Fail{Sig: "data-file-unreadable", Msg: fmt.Sprintf("after %s: %v", op.K, err)}
	}
	if len(rp.Live) != len(r.Model) {
		return &kvh.Fail{Sig: "log-disagrees-with-model", Msg: fmt.Sprintf("after %s: the log resolves %d live keys, the model holds %d", op.K, len(rp.Live), len(r.Model))}
	}
	if got := stat.DiskSize - stat.ReclaimableSize; got != rp.LiveBytes {
		return &kvh.Fail{Sig: "stat-live-bytes", Msg: fmt.Sprintf("after %s: DiskSize-ReclaimableSize = %d-%d = %d, live records occupy %d bytes (%d keys)", op.K, stat.DiskSize, stat.ReclaimableSize, got, rp.LiveBytes, len(rp.Live))}
	}
	// file-size limit clause
	if op.K == "merge" && errors.Is(r.LastMergeErr, kv.ErrMergeFileIDConflict) {
		// a Merge call that gets as far as rewriting first removes what an earlier, not yet adopted merge left
		// behind; when it is then abandoned nothing is pending any more, and the old files keep their limits
		s.mergeSeen = false
	}
	if op.K == "merge" && r.LastMergeErr == nil {
		// files below the id that was active right after the merge rotation will be replaced by merge output written under today's limit
		s.mergeLim = r.Opt.FileSize
		s.mergeSeen = true
		if len(scans) > 0 {
			s.mergeNon = scans[len(scans)-1].ID
		}
	}
	if (op.K == "reopen" || op.K == "tear") && s.mergeSeen {
		if _, err := os.Stat(r.Dir + "-merge"); err != nil {
			for _, fs := range scans {
				if fs.ID < s.mergeNon {
					s.limit[fs.Path] = s.mergeLim
				}
			}
		}
		s.mergeSeen = false
	}
	if n := len(scans); n > 0 {
		act := scans[n-1].Path
		if s.limit[act] < r.Opt.FileSize {
			s.limit[act] = r.Opt.FileSize
		}
	}
	for _, fs := range scans {
		lim, ok := s.limit[fs.Path]
		if !ok {
			lim = r.Opt.FileSize
			s.limit[fs.Path] = lim
		}
		if fs.Size <= lim {
			continue
		}
		n := len(fs.Records)
		single := n == 1 || (n == 2 && fs.Records[1].Type == datafile.LogRecordBatchFinished && fs.Records[0].BatchID != 0)
		if !single {
			return &kvh.Fail{Sig: "file-over-limit", Msg: fmt.Sprintf("after %s: %s is %d bytes with %d records, the largest DataFileSize in force while it was active is %d", op.K, filepath.Base(fs.Path), fs.Size, n, lim)}
		}
		r.Stats.Label("oversize-single-record-file")
	}
	return nil
}

func init() {
	// Merge must never be refused for lack of space: checked where the merge result is visible
	prev := historySetups["C17"]
	historySetups["C17"] = func(r *kvh.Runner) {
		prev(r)
		r.OnMergeResult = func(err error) *kvh.Fail {
			if errors.Is(err, kv.ErrNoEnoughSpaceForMerge) {
				st := r.DB.Stat()
				return &kvh.Fail{Sig: "merge-refused-no-space", Msg: fmt.Sprintf("Merge returned ErrNoEnoughSpaceForMerge with DiskSize=%d ReclaimableSize=%d", st.DiskSize, st.ReclaimableSize)}
			}
			if err != nil && !errors.Is(err, kv.ErrMergeFileIDConflict) && !strings.Contains(err.Error(), "merge") {
				return nil
			}
			return nil
		}
	}
}
