package harness

import (
	"fmt"
	"testing"

	"pgregory.net/rapid"
	"verifharness/kvh"
)

// C20 — a backup taken at any time opens to the state at backup time; the
// source stays usable; the copy carries no lock.

var c20Profile = &kvh.GenProfile{
	Weights: map[string]int{
		"put": 34, "bigput": 8, "del": 10, "batch": 10, "merge": 6, "reopen": 8, "backup": 18, "get": 3, "sync": 1, "listkeys": 1,
	},
	MaxBatchOps: 6,
	Big:         true,
	OptProfile:  kvh.OptProfile{MMapPercent: 45, FileSizes: []int64{200, 4096, 40000, 1 << 20, 1 << 20}},
}

const c20Rule = "histories (rotated files, batches, adopted merges with hint files) under both I/O types with Backup(freshDir) at generated points; the copy is opened while the source is still open (with independently drawn reader options) and dumped, then the source continues (incl. multi-block Puts right after an MMap backup, further backups, restarts) with the reference-map comparison after every step; faults from stale mappings are turned into recoverable panics; non-trivial = a backup taken after >= 1 rotation or batch and followed by >= 1 further write on the source; distinct = hash of (options, ops)"

func TestC20(t *testing.T) {
	st := kvh.StatsFor("C20")
	st.SetRule(c20Rule+" || "+fmt.Sprintf(snapRule, "Backup (the copy is then opened)", "the whole Backup call"),
		"backups go into fresh directories only",
		"debug.SetPanicOnFault(true) is set on the goroutine that calls the engine")
	defer finishProperty(st)
	t.Run("histories", func(t *testing.T) {
		checkCases(t, st, func(t *rapid.T) {
			runHistoryCase(t, "C20", c20Profile, func(r *kvh.Runner) bool {
				return r.F.Backups > 0 && (r.F.Rotations > 0 || r.F.Batches > 0) && r.F.WritesAfterBackup > 0
			})
		})
	})
	t.Run("under-a-writer", func(t *testing.T) {
		restore := scaleRapidChecksDiv(4)
		defer restore()
		snapConcurrent(t, st, "C20", []string{"backup"}, 35)
	})
}
