package harness

import (
	"fmt"
	"os"
	"path/filepath"
	"testing"

	kv "github.com/XiXi-2024/xixi-kv"
	"pgregory.net/rapid"

	"verifharness/kvh"
)

// C20 — a backup taken at any time opens to the state at backup time; the
// source stays usable; the copy carries no lock.

var c20Profile = &kvh.GenProfile{
	Weights: map[string]int{
		"put": 34, "bigput": 8, "del": 10, "batch": 10, "merge": 6, "reopen": 8, "backup": 18, "get": 3, "sync": 1, "listkeys": 1,
	},
	MaxBatchOps: 6,
	Big:         true,
	OptProfile:  kvh.OptProfile{MMapPercent: 45, FileSizes: []int64{200, 4096, 40000, 1 << 20, 1 << 20}},
}

const c20Rule = "histories (rotated files, batches, adopted merges with hint files) under both I/O types with Backup(freshDir) at generated points; the copy is opened while the source is still open (with independently drawn reader options) and dumped, then the source continues (incl. multi-block Puts right after an MMap backup, further backups, restarts) with the reference-map comparison after every step; faults from stale mappings are turned into recoverable panics; non-trivial = a backup taken after >= 1 rotation or batch and followed by >= 1 further write on the source; distinct = hash of (options, ops)"

func TestC20(t *testing.T) {
	st := kvh.StatsFor("C20")
	st.SetRule(c20Rule+" || "+fmt.Sprintf(snapRule, "Backup (the copy is then opened)", "the whole Backup call"),
		"backups go into fresh directories only",
		"debug.SetPanicOnFault(true) is set on the goroutine that calls the engine")
	defer finishProperty(st)
	c20RelativeDirProbe(t, st)
	t.Run("histories", func(t *testing.T) {
		checkCases(t, st, func(t *rapid.T) {
			runHistoryCase(t, "C20", c20Profile, func(r *kvh.Runner) bool {
				return r.F.Backups > 0 && (r.F.Rotations > 0 || r.F.Batches > 0) && r.F.WritesAfterBackup > 0
			})
		})
	})
	t.Run("under-a-writer", func(t *testing.T) {
		restore := scaleRapidChecksDiv(4)
		defer restore()
		snapConcurrent(t, st, "C20", []string{"backup"}, 35)
	})
}

// c20RelativeDirProbe: the directory is named relative to the working directory of the process (the daemon habit of
// changing into the state directory and opening "."; "./db", "../db" from a sibling). The working directory belongs to
// the whole process, so this is a fixed family of schedules run once, before the generated histories, not an option of
// every history. The backup - taken into an absolute or a relative destination - is opened by its absolute path and
// must hold the mapping the source had when Backup was called; the source, reopened by its absolute path, the final one.
func c20RelativeDirProbe(t fataler, st *kvh.Stats) {
	e := kvh.GetEnv()
	if !e.Mine(0) {
		return
	}
	cwd0, err := os.Getwd()
	if err != nil || !filepath.IsAbs(e.Scratch) || !filepath.IsAbs(e.Out) {
		return // everything else the process writes must be named absolutely while its working directory moves
	}
	defer func() { _ = os.Chdir(cwd0) }()
	cs := map[string]string{"property": "C20", "kind": "probe-c20-relative-dir", "note": "fixed schedules, see c20RelativeDirProbe"}
	kvh.SetInFlight(&kvh.InFlight{Property: "C20", Case: func() any { return cs }})
	defer kvh.SetInFlight(nil)
	for round, sp := range []struct{ cwd, dir, dst string }{
		{"db", ".", ""}, {"db", "./", "../bk"}, {"", "db", ""}, {"", "./db", "bk"}, {"side", "../db", "../bk"}, {"", "db/", "./bk/"}, {"db", ".", "../bk/"},
	} {
		base := e.NewDir("c20rel")
		fail := func() *kvh.Fail {
			defer func() {
				_ = os.Chdir(cwd0)
				gIO.Forget(base)
				_ = os.RemoveAll(base)
			}()
			for _, d := range []string{"db", "side"} {
				_ = os.MkdirAll(filepath.Join(base, d), 0o755)
			}
			if err := os.Chdir(filepath.Join(base, sp.cwd)); err != nil {
				return nil
			}
			opt := kvh.DefaultOpt()
			opt.FileSize = []int64{600, 4096, 1 << 20}[round%3]
			opt.Index = int8(1 + round%3)
			what := fmt.Sprintf("working directory <base>/%s, DirPath %q, Backup(%q)", sp.cwd, sp.dir, sp.dst)
			db, err := kv.Open(opt.KV(sp.dir))
			if err != nil {
				return &kvh.Fail{Sig: "open-error", Msg: what + ": " + err.Error()}
			}
			closed := false
			defer func() {
				if !closed {
					_ = db.Close()
				}
			}()
			model := map[string]string{}
			write := func(from, to int, tag string) *kvh.Fail {
				for i := from; i < to; i++ {
					k := fmt.Sprintf("key-%04d", i%220)
					if i%7 == 3 {
						if err := db.Delete([]byte(k)); err != nil {
							return &kvh.Fail{Sig: "delete-error", Msg: what + ": " + err.Error()}
						}
						delete(model, k)
						continue
					}
					v := fmt.Sprintf("%s-%04d-%s", tag, i, kvh.ValueDigest(kvh.GenValue(uint64(i), 20+(i*11)%70)))
					if err := db.Put([]byte(k), []byte(v)); err != nil {
						return &kvh.Fail{Sig: "put-error", Msg: what + ": " + err.Error()}
					}
					model[k] = v
				}
				return nil
			}
			if f := write(0, 300, "before"); f != nil {
				return f
			}
			atBackup := map[string]string{}
			for k, v := range model {
				atBackup[k] = v
			}
			dst := sp.dst
			if dst == "" {
				dst = filepath.Join(base, "bk")
			}
			if err := db.Backup(dst); err != nil {
				return &kvh.Fail{Sig: "backup-error", Msg: what + ": " + err.Error()}
			}
			if f := write(300, 420, "after"); f != nil {
				return f
			}
			if round%2 == 0 {
				// a merge, and the restart that adopts it, under the same relative name
				if err := db.Merge(); err != nil {
					return &kvh.Fail{Sig: "merge-error", Msg: what + ": " + err.Error()}
				}
				if err := db.Close(); err != nil {
					return &kvh.Fail{Sig: "close-error", Msg: what + ": " + err.Error()}
				}
				if db, err = kv.Open(opt.KV(sp.dir)); err != nil {
					closed = true
					return &kvh.Fail{Sig: "open-error", Msg: what + ": the Open that adopts the merge: " + err.Error()}
				}
				if f := write(420, 470, "merged"); f != nil {
					return f
				}
			}
			if err := db.Close(); err != nil {
				return &kvh.Fail{Sig: "close-error", Msg: what + ": " + err.Error()}
			}
			closed = true
			_ = os.Chdir(cwd0)
			for _, side := range []struct {
				dir, name string
				want      map[string]string
			}{{filepath.Join(base, "bk"), "the backup", atBackup}, {filepath.Join(base, "db"), "the source, reopened by its absolute path", model}} {
				rdb, err := kv.Open(opt.KV(side.dir))
				if err != nil {
					return &kvh.Fail{Sig: "backup-open-error", Msg: fmt.Sprintf("%s: opening %s: %v", what, side.name, err)}
				}
				n := rdb.Stat().KeyNum
				var bad string
				for k, v := range side.want {
					if got, gerr := rdb.Get([]byte(k)); gerr != nil || string(got) != v {
						bad = fmt.Sprintf("Get(%s) = (%q, %v), want %q", k, got, gerr, v)
						break
					}
				}
				_ = rdb.Close()
				if bad != "" || n != len(side.want) {
					return &kvh.Fail{Sig: "backup-differs-from-source", Msg: fmt.Sprintf("%s: %s holds %d keys, want %d; %s", what, side.name, n, len(side.want), bad)}
				}
			}
			return nil
		}()
		st.Eval(1)
		st.Label("directory-named-relative-to-the-working-directory")
		st.NonTrivial(kvh.Hash64([]byte(fmt.Sprintf("c20rel|%d", round))))
		if fail != nil {
			report(t, st, cs, fail)
			return
		}
	}
}

func init() {
	replayers["probe-c20-relative-dir"] = func(_ *kvh.Case, _ []byte) *kvh.Fail { return replayProbe(c20RelativeDirProbe, "C20") }
}
