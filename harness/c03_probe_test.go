package harness

import (
	"errors"
	"fmt"
	"os"
	"path/filepath"

	kv "github.com/XiXi-2024/xixi-kv"

	"verifharness/kvh"
)

// c03MergeRaceProbe: the crash engine runs histories without writes that race with Merge (several mutations inside
// one operation would break the accounting of the prefix oracle), so one such history is owned by a probe:
// Put(k, v1); Sync(); Merge() during which - right after its rotation - Put(k, v2) is acknowledged (SyncStrategy No,
// so v2 is not flushed); Merge returns; the power fails. Every file is cut back to its flushed length, the image is
// opened, and k must map to v1 or to v2 (C03: some prefix of the acknowledged mutations).
func c03MergeRaceProbe(t fataler, st *kvh.Stats) {
	if !kvh.GetEnv().Mine(1 % kvh.GetEnv().NShards) {
		return
	}
	// a probe that comes to a halt is a verdict of the deadlock watchdog like any other case
	kvh.SetInFlight(&kvh.InFlight{Property: "C03", Case: func() any {
		return map[string]string{"property": "C03", "kind": "probe-c03-merge-race", "note": "fixed schedule, see c03MergeRaceProbe"}
	}})
	defer kvh.SetInFlight(nil)
	e := kvh.GetEnv()
	base := e.NewDir("c03probe")
	defer func() {
		gIO.SetOnPoint(nil)
		gIO.Forget(base)
		_ = os.RemoveAll(base)
	}()
	dir := filepath.Join(base, "db")
	opt := kvh.DefaultOpt()
	opt.FileSize = 1 << 20
	cs := &kvh.Case{Property: "C03", Kind: "history", Opt: opt}
	db, err := kv.Open(opt.KV(dir))
	if err != nil {
		report(t, st, cs, &kvh.Fail{Sig: "open-error", Msg: err.Error()})
		return
	}
	closed := false
	defer func() {
		if !closed {
			gIO.Muted(func() { _ = db.Close() })
		}
	}()
	v1, v2 := kvh.GenValue(11, 40), kvh.GenValue(12, 50)
	if err := db.Put([]byte("k"), v1); err != nil {
		report(t, st, cs, &kvh.Fail{Sig: "harness", Msg: err.Error()})
		return
	}
	_ = db.Put([]byte("other"), kvh.GenValue(13, 30))
	_ = db.Put([]byte("other"), kvh.GenValue(14, 30))
	if err := db.Sync(); err != nil {
		report(t, st, cs, &kvh.Fail{Sig: "harness", Msg: err.Error()})
		return
	}
	raced := false
	var perr error
	gIO.SetOnPoint(func(name string, _ []byte) {
		if name == "merge.rotated" && !raced {
			raced = true
			perr = db.Put([]byte("k"), v2)
		}
	})
	merr := db.Merge()
	gIO.SetOnPoint(nil)
	if merr != nil || perr != nil || !raced {
		st.Label("merge-race-probe-not-reached")
		return
	}
	// the power fails: what survives of each file is what was flushed
	image := filepath.Join(base, "image")
	for _, sub := range []string{"db", "db-merge"} {
		src := filepath.Join(base, sub)
		ents, err := os.ReadDir(src)
		if err != nil {
			continue
		}
		_ = os.MkdirAll(filepath.Join(image, sub), 0o755)
		for _, en := range ents {
			if en.IsDir() || en.Name() == ".lock" {
				continue
			}
			p := filepath.Join(src, en.Name())
			b, err := kvh.ReadLogical(gIO, p)
			if err != nil {
				continue
			}
			if fs, ok := gIO.Get(p); ok && fs.Synced < int64(len(b)) {
				b = b[:fs.Synced]
			}
			_ = os.WriteFile(filepath.Join(image, sub, en.Name()), b, 0o644)
		}
	}
	gIO.Muted(func() { _ = db.Close() })
	closed = true
	st.Eval(1)
	rdb, err := kv.Open(opt.KV(filepath.Join(image, "db")))
	if err != nil {
		report(t, st, cs, &kvh.Fail{Sig: "recovery-open-error", Msg: "merge-race probe: " + err.Error()})
		return
	}
	got, gerr := rdb.Get([]byte("k"))
	_ = rdb.Close()
	switch {
	case gerr == nil && (string(got) == string(v1) || string(got) == string(v2)):
		st.Label("merge-race-probe-clean")
	case errors.Is(gerr, kv.ErrKeyNotFound):
		st.Known("merge-marker-durable-before-the-write-that-superseded-a-dropped-record", "after the power failure Get(k) = key not found: the merge dropped v1 because the index pointed at v2, its marker was flushed, v2 was not - k maps to nothing, which is no prefix of {Put(k,v1), Put(k,v2)}")
	default:
		report(t, st, cs, &kvh.Fail{Sig: "recovered-state-not-a-prefix", Msg: fmt.Sprintf("merge-race probe: after the power failure Get(k) = (%s, %v), want the value of Put #1 or Put #2", kvh.ValueDigest(got), gerr)})
	}
}

func init() {
	replayers["probe-c03-merge-race"] = func(_ *kvh.Case, _ []byte) *kvh.Fail { return replayProbe(c03MergeRaceProbe, "C03") }
}
