package harness

import (
	"fmt"
	"os"
	"path/filepath"
	"strings"
	"sync"
	"sync/atomic"
	"time"

	kv "github.com/XiXi-2024/xixi-kv"

	"verifharness/kvh"
)

// c04MergeBatchProbe owns one schedule of two goroutines that the single-threaded crash engine cannot produce:
// a Merge is in its scan (which holds no lock) when another goroutine opens a batch large enough to be flushed in
// pieces; the first piece reaches the log and the index before the merge examines the old record of the same
// key; the merge finishes and writes its marker; the process dies before the batch commits.
//
// C04 wants the batch to be invisible after that crash - key X must map to what it mapped to before the batch.
// The image is taken at the close of the marker file (marker written and flushed), i.e. between two I/O calls.
func c04MergeBatchProbe(t fataler, st *kvh.Stats) {
	if !kvh.GetEnv().Mine(0) {
		return
	}
	// a probe that comes to a halt is a verdict of the deadlock watchdog like any other case
	kvh.SetInFlight(&kvh.InFlight{Property: "C04", Case: func() any {
		return map[string]string{"property": "C04", "kind": "probe-c04-merge-batch", "note": "fixed schedule, see c04MergeBatchProbe"}
	}})
	defer kvh.SetInFlight(nil)
	e := kvh.GetEnv()
	base := e.NewDir("c04probe")
	defer func() {
		gIO.SetOnPoint(nil)
		gIO.SetOnEvent(nil)
		gIO.Forget(base)
		_ = os.RemoveAll(base)
	}()
	dir := filepath.Join(base, "db")
	opt := kvh.DefaultOpt()
	opt.FileSize = 400
	db, err := kv.Open(opt.KV(dir))
	if err != nil {
		report(t, st, &kvh.Case{Property: "C04", Kind: "history", Opt: opt}, &kvh.Fail{Sig: "open-error", Msg: err.Error()})
		return
	}
	closed := false
	defer func() {
		if !closed {
			_ = db.Close()
		}
	}()
	old := kvh.GenValue(7, 60)
	// X and some filler, so that X's record lies in a rotated file and there is garbage to merge
	must := func(err error) bool {
		if err != nil {
			report(t, st, &kvh.Case{Property: "C04", Kind: "history", Opt: opt}, &kvh.Fail{Sig: "harness", Msg: "probe set-up: " + err.Error()})
			return false
		}
		return true
	}
	if !must(db.Put([]byte("X"), old)) {
		return
	}
	for i := 0; i < 8; i++ {
		if !must(db.Put([]byte(fmt.Sprintf("f%d", i%3)), kvh.GenValue(uint64(20+i), 90))) {
			return
		}
	}

	var once, onceImg sync.Once
	var mergeWaited atomic.Bool
	pieceFlushed := make(chan struct{})
	imageTaken := make(chan struct{})
	batchDone := make(chan error, 1)
	var image string
	mergeDir := dir + "-merge"
	gIO.SetOnPoint(func(name string, key []byte) {
		if name != "merge.scan" {
			return
		}
		once.Do(func() {
			// the merge has examined nothing yet: another goroutine opens a batch and overflows it
			go func() {
				b := db.NewBatch(kv.DefaultBatchOptions)
				err := b.Put([]byte("X"), kvh.GenValue(100, 250))
				if err == nil {
					err = b.Put([]byte("Z"), kvh.GenValue(101, 250)) // does not fit any more: the piece holding X is flushed
				}
				close(pieceFlushed)
				// wait for the instant of the crash - or for the merge to come to a halt on the engine lock this batch
				// holds (a merge that cannot finish while a batch is open cannot produce the hazardous image at all)
			wait:
				for {
					select {
					case <-imageTaken:
						break wait
					case <-time.After(time.Millisecond):
						if isLockWait(goroutineState("xixi-kv.(*DB).Merge")) {
							mergeWaited.Store(true)
							break wait
						}
					}
				}
				if err == nil {
					err = b.Commit()
				} else {
					_ = b.Commit()
				}
				batchDone <- err
			}()
			<-pieceFlushed
		})
	})
	gIO.SetOnEvent(func(ev kvh.Event) {
		if ev.Kind == "close" && strings.HasPrefix(ev.Path, mergeDir+string(filepath.Separator)) && strings.HasSuffix(ev.Path, ".merge-finished") {
			onceImg.Do(func() {
				// the marker is written and flushed; the batch of the other goroutine is still open: the process dies here
				image = filepath.Join(base, "image")
				for _, sub := range []string{"db", "db-merge"} {
					src := filepath.Join(base, sub)
					ents, err := os.ReadDir(src)
					if err != nil {
						continue
					}
					_ = os.MkdirAll(filepath.Join(image, sub), 0o755)
					for _, en := range ents {
						if en.IsDir() || en.Name() == ".lock" {
							continue
						}
						if b, err := kvh.ReadLogical(gIO, filepath.Join(src, en.Name())); err == nil {
							_ = os.WriteFile(filepath.Join(image, sub, en.Name()), b, 0o644)
						}
					}
				}
				close(imageTaken)
			})
		}
	})
	mergeErr := db.Merge()
	gIO.SetOnPoint(nil)
	gIO.SetOnEvent(nil)
	onceImg.Do(func() { close(imageTaken) }) // the merge ended without writing a marker: let the batch go
	select {
	case <-pieceFlushed:
	default:
		st.Label("merge-batch-probe-not-reached")
		return
	}
	var berr error
	select {
	case berr = <-batchDone:
	case <-time.After(60 * time.Second):
		report(t, st, &kvh.Case{Property: "C04", Kind: "history", Opt: opt}, &kvh.Fail{Sig: "harness", Msg: "probe: the batch goroutine did not finish"})
		return
	}
	if mergeWaited.Load() && mergeErr == nil && berr == nil {
		// the merge waited for the batch to commit before it wrote its marker: the image "marker written, batch
		// open" does not exist
		st.Eval(1)
		st.Label("merge-batch-probe-clean-(merge-waits-for-the-open-batch)")
		return
	}
	if mergeErr != nil || berr != nil || image == "" {
		st.Label("merge-batch-probe-not-reached")
		return
	}
	_ = db.Close()
	closed = true
	st.Eval(1)
	// recover the image of the crash
	rdb, err := kv.Open(opt.KV(filepath.Join(image, "db")))
	if err != nil {
		report(t, st, &kvh.Case{Property: "C04", Kind: "history", Opt: opt}, &kvh.Fail{Sig: "recovery-open-error", Msg: "merge/batch probe: " + err.Error()})
		return
	}
	got, gerr := rdb.Get([]byte("X"))
	_, zerr := rdb.Get([]byte("Z"))
	_ = rdb.Close()
	switch {
	case gerr == nil && string(got) == string(old) && zerr != nil:
		st.Label("merge-batch-probe-clean") // the uncommitted batch is invisible, X has its old value
	case gerr != nil && zerr != nil:
		st.Known("merge-drops-record-superseded-by-uncommitted-batch", fmt.Sprintf("after the crash Get(X) = %v: the merge dropped X's record because the index already pointed at the flushed piece of a batch that never committed; the batch is discarded at recovery, so X maps to nothing - neither the batch's value nor the value it had before", gerr))
		st.Exclude("merge-during-an-open-oversized-batch-of-another-goroutine", 1)
	default:
		report(t, st, &kvh.Case{Property: "C04", Kind: "history", Opt: opt}, &kvh.Fail{Sig: "recovered-state-not-a-prefix", Msg: fmt.Sprintf("merge/batch probe: after the crash Get(X) = (%s, %v), Get(Z) error = %v; X had %s before the uncommitted batch", kvh.ValueDigest(got), gerr, zerr, kvh.ValueDigest(old))})
	}
}

func init() {
	replayers["probe-c04-merge-batch"] = func(_ *kvh.Case, _ []byte) *kvh.Fail { return replayProbe(c04MergeBatchProbe, "C04") }
}
