package harness

import (
	"encoding/binary"
	"fmt"
	"os"
	"path/filepath"
	"testing"

	kv "github.com/XiXi-2024/xixi-kv"
	"pgregory.net/rapid"
	"verifharness/kvh"
)

// Native (coverage-guided) fuzz targets, used by the thorough tier only. The
// semantic oracles live inside the targets; Go's fuzzer cannot be seeded, so
// the reproducible unit is the saved failing input (testdata/fuzz/...), which
// bin/check copies next to the JSON case it derives from it.

// FuzzFraming decodes the input into a record sequence for C11's round-trip
// and differential oracle: 6 bytes per record
// (type, key-length class, batch class, group flag, 2 bytes value length steering).
func FuzzFraming(f *testing.F) {
	f.Add([]byte{0, 1, 0, 0, 10, 0})
	f.Add([]byte{0, 1, 0, 0, 0xf1, 0x7f, 1, 2, 1, 1, 0xff, 0xff, 2, 0, 2, 1, 0, 0})
	f.Add([]byte{0, 3, 0, 0, 0xe9, 0x7f, 0, 1, 0, 0, 5, 0, 0, 9, 3, 0, 0xf8, 0xff})
	f.Fuzz(func(t *testing.T, data []byte) {
		c := &c11Seq{Property: "C11", Kind: "c11seq"}
		off := int64(0)
		for i := 0; i+6 <= len(data) && len(c.Recs) < 10; i += 6 {
			r := c11Rec{Type: data[i] % 3}
			switch data[i+1] % 8 {
			case 0:
				r.KLen = 0
			case 7:
				r.KLen = 33000
			default:
				r.KLen = int(data[i+1])%40 + 1
			}
			r.BatchID = []uint64{0, 1, 1 << 63, 0x1d2c3b4a59687766, 127, 128}[int(data[i+2])%6]
			if data[i+3]%2 == 1 {
				r.Group = 1 + int(data[i+3])%3
			}
			v := int(binary.LittleEndian.Uint16(data[i+4:]))
			if v >= 0x7f00 {
				// steer at the next boundaries: delta = low byte - 128, k = 1..3
				k := int64(1 + (v>>8)%3)
				d := int64(v&0xff) - 128
				r.VLen, _ = kvh.SteerVLen(off, r.KLen, r.BatchID, (off/kvh.BlockSize+k)*kvh.BlockSize+d/4)
			} else {
				r.VLen = v % 3000
			}
			_, off, _, _ = kvh.FrameLayout(off, kvh.EncLen(r.KLen, r.VLen, r.BatchID))
			c.Recs = append(c.Recs, r)
		}
		if len(c.Recs) == 0 {
			return
		}
		if _, fail := c11RunSeq(c); fail != nil {
			path := kvh.StatsFor("C11").Violation(fail.Sig, c, fail.Msg)
			t.Fatalf("VIOLATION-CANDIDATE sig=%s replay=%s\n%s", fail.Sig, path, fail.Msg)
		}
	})
}

// fuzzDB is a small pristine database: a rotated file and a newest file.
type fuzzDBT struct {
	files  map[string][]byte
	ever   map[string]map[uint64]bool // key -> hashes of every value ever written
	live   map[string][]byte
	older  string
	newest string
}

var fuzzDB *fuzzDBT

func buildFuzzDB() *fuzzDBT {
	if fuzzDB != nil {
		return fuzzDB
	}
	e := kvh.GetEnv()
	base := e.NewDir("fuzzdb")
	defer os.RemoveAll(base)
	dir := filepath.Join(base, "db")
	o := kvh.DefaultOpt()
	o.FileSize = 400
	db, err := kv.Open(o.KV(dir))
	if err != nil {
		panic(err)
	}
	d := &fuzzDBT{files: map[string][]byte{}, ever: map[string]map[uint64]bool{}, live: map[string][]byte{}}
	put := func(k string, seed uint64, n int) {
		v := kvh.GenValue(seed, n)
		if err := db.Put([]byte(k), v); err != nil {
			panic(err)
		}
		if d.ever[k] == nil {
			d.ever[k] = map[uint64]bool{}
		}
		d.ever[k][kvh.Hash64(v)] = true
		d.live[k] = v
	}
	put("a", 1, 40)
	put("b", 2, 90)
	put("a", 3, 60)
	put("c", 4, 10)
	_ = db.Delete([]byte("c"))
	delete(d.live, "c")
	b := db.NewBatch(kv.BatchOptions{})
	_ = b.Put([]byte("d"), kvh.GenValue(5, 30))
	_ = b.Put([]byte("b"), kvh.GenValue(6, 20))
	_ = b.Commit()
	for k, s := range map[string]uint64{"d": 5, "b": 6} {
		n := map[string]int{"d": 30, "b": 20}[k]
		v := kvh.GenValue(s, n)
		d.ever[k] = mapOr(d.ever[k])
		d.ever[k][kvh.Hash64(v)] = true
		d.live[k] = v
	}
	put("e", 7, 120)
	put("a", 8, 15)
	_ = db.Close()
	ents, _ := os.ReadDir(dir)
	for _, en := range ents {
		if filepath.Ext(en.Name()) == ".data" {
			bts, _ := os.ReadFile(filepath.Join(dir, en.Name()))
			d.files[en.Name()] = bts
			if en.Name() > d.newest {
				d.newest = en.Name()
			}
		}
	}
	for n, bts := range d.files {
		if n != d.newest && len(bts) > len(d.files[d.older]) {
			d.older = n
		}
	}
	gIO.Forget(base)
	fuzzDB = d
	return d
}

func mapOr(m map[uint64]bool) map[uint64]bool {
	if m == nil {
		return map[uint64]bool{}
	}
	return m
}

// FuzzOpenDamaged replaces the content of one data file (first input byte:
// 0 = the largest rotated file, 1 = the newest file) by the rest of the input
// and opens the database. Oracle (C12, weakened for arbitrary content, which
// may splice records that carry a valid checksum): no panic; if Open succeeds
// every Get returns an error or bytes that were written for that key at some
// time - never bytes that were never written for it.
func FuzzOpenDamaged(f *testing.F) {
	d := buildFuzzDB()
	f.Add(append([]byte{0}, d.files[d.older]...))
	f.Add(append([]byte{1}, d.files[d.newest]...))
	f.Add(append([]byte{0}, d.files[d.older][:len(d.files[d.older])/2]...))
	f.Fuzz(func(t *testing.T, data []byte) {
		if len(data) < 1 || len(data) > 1<<17 {
			return
		}
		d := buildFuzzDB()
		target := d.older
		if data[0]%2 == 1 {
			target = d.newest
		}
		e := kvh.GetEnv()
		base := e.NewDir("fuzzopen")
		defer func() {
			gIO.Forget(base)
			os.RemoveAll(base)
		}()
		dir := filepath.Join(base, "db")
		_ = os.MkdirAll(dir, 0o755)
		for n, b := range d.files {
			if n == target {
				b = data[1:]
			}
			_ = os.WriteFile(filepath.Join(dir, n), b, 0o644)
		}
		fail := func(sig, msg string) {
			c := map[string]any{"property": "C12", "kind": "c12fuzz", "target": target, "content": data[1:]}
			path := kvh.StatsFor("C12").Violation(sig, c, msg)
			t.Fatalf("VIOLATION-CANDIDATE sig=%s replay=%s\n%s", sig, path, msg)
		}
		func() {
			defer func() {
				if p := recover(); p != nil {
					fail("panic-on-damaged-bytes", fmt.Sprintf("replacing %s by %d fuzzed bytes: %v", target, len(data)-1, p))
				}
			}()
			o := kvh.DefaultOpt()
			o.FileSize = 400
			db, err := kv.Open(o.KV(dir))
			if err != nil {
				return
			}
			defer db.Close()
			for _, k := range db.ListKeys() {
				v, err := db.Get(k)
				if err != nil {
					continue
				}
				if !d.ever[string(k)][kvh.Hash64(v)] && !(len(v) == 0 && d.ever[string(k)] != nil && d.ever[string(k)][kvh.Hash64([]byte{})]) {
					fail("damaged-bytes-served-as-data", fmt.Sprintf("after replacing %s by fuzzed bytes Get(%q) returns %s, which was never written for that key", target, k, kvh.ValueDigest(v)))
				}
			}
			_ = db.Fold(func(k, v []byte) bool { return true })
		}()
	})
}

// replayFuzzOpen re-executes FuzzOpenDamaged's oracle on a saved input without the fuzzer.
func replayFuzzOpen(target string, content []byte) (fail *kvh.Fail) {
	d := buildFuzzDB()
	e := kvh.GetEnv()
	base := e.NewDir("fuzzopen")
	defer func() {
		gIO.Forget(base)
		os.RemoveAll(base)
	}()
	defer func() {
		if p := recover(); p != nil {
			fail = &kvh.Fail{Sig: "panic-on-damaged-bytes", Msg: fmt.Sprint(p)}
		}
	}()
	dir := filepath.Join(base, "db")
	_ = os.MkdirAll(dir, 0o755)
	for n, b := range d.files {
		if n == target {
			b = content
		}
		_ = os.WriteFile(filepath.Join(dir, n), b, 0o644)
	}
	o := kvh.DefaultOpt()
	o.FileSize = 400
	db, err := kv.Open(o.KV(dir))
	if err != nil {
		return nil
	}
	defer db.Close()
	for _, k := range db.ListKeys() {
		v, err := db.Get(k)
		if err != nil {
			continue
		}
		if !d.ever[string(k)][kvh.Hash64(v)] {
			return &kvh.Fail{Sig: "damaged-bytes-served-as-data", Msg: fmt.Sprintf("Get(%q) returns %s, never written for that key", k, kvh.ValueDigest(v))}
		}
	}
	return nil
}

// Coverage-guided variants of two rapid properties (rapid.MakeFuzz turns the fuzzer's bytes into rapid's
// bit stream), thorough tier only: the fuzzer's coverage feedback explores operation histories that uniform
// random generation reaches rarely.
func FuzzC01History(f *testing.F) {
	f.Add([]byte{0, 1, 2, 3, 4, 5, 6, 7, 8, 9, 10, 11, 12, 13, 14, 15, 16, 17, 18, 19, 20, 21, 22, 23, 24})
	f.Fuzz(rapid.MakeFuzz(func(t *rapid.T) {
		runHistoryCase(t, "C01", c01Profile, func(r *kvh.Runner) bool { return r.NonTrivialBasic() })
	}))
}

func FuzzC10Index(f *testing.F) {
	f.Add([]byte{9, 8, 7, 6, 5, 4, 3, 2, 1, 0, 9, 8, 7, 6, 5, 4, 3, 2, 1, 0, 1, 2, 3, 4, 5, 6, 7, 8})
	f.Fuzz(rapid.MakeFuzz(func(t *rapid.T) { c10IndexCase(t, kvh.StatsFor("C10")) }))
}
