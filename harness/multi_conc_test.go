package harness

import (
	"errors"
	"fmt"
	"os"
	"path/filepath"
	"sync"
	"testing"

	kv "github.com/XiXi-2024/xixi-kv"

	"verifharness/kvh"
)

// ---- C05: one batch handle shared by several goroutines ("write-behind aggregator": workers call b.Put on the
// handle, a flusher calls b.Commit). Batch carries a mutex of its own for exactly this. Every Put is either
// acknowledged (nil) - then Commit applies it - or rejected with ErrBatchCommitted; nothing else, and nothing is
// acknowledged and lost.

type sharedBatchCase struct {
	Property string  `json:"property"`
	Kind     string  `json:"kind"`
	Opt      kvh.Opt `json:"options"`
	Workers  int     `json:"workers"`
	Puts     int     `json:"puts"`
	Delay    int     `json:"delay"` // the flusher commits after this many of worker 0's puts
}

func runSharedBatch(c *sharedBatchCase) *kvh.Fail {
	e := kvh.GetEnv()
	base := e.NewDir("c05shared")
	defer func() {
		gIO.Forget(base)
		_ = os.RemoveAll(base)
	}()
	db, err := kv.Open(c.Opt.KV(filepath.Join(base, "db")))
	if err != nil {
		return &kvh.Fail{Sig: "open-error", Msg: err.Error()}
	}
	defer func() {
		func() {
			defer func() { _ = recover() }()
			_ = db.Close()
		}()
	}()
	b := db.NewBatch(kv.DefaultBatchOptions)
	type res struct {
		key string
		err error
	}
	results := make([][]res, c.Workers)
	commitNow := make(chan struct{})
	var once sync.Once
	var wg sync.WaitGroup
	for w := 0; w < c.Workers; w++ {
		wg.Add(1)
		go func(w int) {
			defer wg.Done()
			for i := 0; i < c.Puts; i++ {
				if w == 0 && i == c.Delay {
					once.Do(func() { close(commitNow) })
				}
				k := fmt.Sprintf("w%d-%03d", w, i)
				results[w] = append(results[w], res{k, b.Put([]byte(k), []byte("v-"+k))})
			}
			once.Do(func() { close(commitNow) })
		}(w)
	}
	<-commitNow
	cerr := b.Commit()
	wg.Wait()
	if cerr != nil {
		return &kvh.Fail{Sig: "batch-commit-error", Msg: cerr.Error()}
	}
	for w := range results {
		for _, r := range results[w] {
			got, gerr := db.Get([]byte(r.key))
			switch {
			case r.err == nil:
				if gerr != nil || string(got) != "v-"+r.key {
					return &kvh.Fail{Sig: "acknowledged-batch-put-lost", Msg: fmt.Sprintf("Batch.Put(%s) on a handle shared by %d goroutines returned nil while another goroutine committed the batch, yet after Commit Get = (%q, %v): the put was acknowledged and never applied", r.key, c.Workers, got, gerr)}
				}
			case errors.Is(r.err, kv.ErrBatchCommitted):
				if gerr == nil {
					return &kvh.Fail{Sig: "rejected-batch-put-applied", Msg: fmt.Sprintf("Batch.Put(%s) was rejected with ErrBatchCommitted but the key is in the database", r.key)}
				}
			default:
				return &kvh.Fail{Sig: "batch-put-error", Msg: fmt.Sprintf("Batch.Put(%s) = %v", r.key, r.err)}
			}
		}
	}
	return nil
}

func c05SharedBatch(t *testing.T, st *kvh.Stats) {
	e := kvh.GetEnv()
	rounds := 60
	if e.Thorough() {
		rounds = 600
	}
	for i := 0; i < rounds; i++ {
		if !e.Mine(i) {
			continue
		}
		c := &sharedBatchCase{Property: "C05", Kind: "c05shared", Opt: kvh.DefaultOpt(), Workers: 2 + i%6, Puts: 20 + (i*7)%60, Delay: (i * 5) % 40}
		c.Opt.Index = int8(1 + i%3)
		if i%4 == 3 {
			c.Opt.FileSize = 4096 // the shared batch overflows and is flushed in pieces
		}
		kvh.SetInFlight(&kvh.InFlight{Property: "C05", Case: func() any { return c }})
		f := runSharedBatch(c)
		kvh.SetInFlight(nil)
		if f != nil {
			report(t, st, c, f)
		}
		st.Eval(1)
		st.Label("batch-handle-shared-by-several-goroutines")
		st.NonTrivial(kvh.Hash64([]byte(fmt.Sprintf("c05shared|%+v", *c))))
	}
}

// ---- C18: two database instances of one process merge at the same time (one directory per tenant, each
// compacted by its own goroutine). Each hint file must index its own merged files: after the adopting restart every
// key reads back.

type twoMergeCase struct {
	Property string  `json:"property"`
	Kind     string  `json:"kind"`
	Opt      kvh.Opt `json:"options"`
	Keys     int     `json:"keys"`
}

func runTwoMerges(c *twoMergeCase) *kvh.Fail {
	e := kvh.GetEnv()
	base := e.NewDir("c18two")
	defer func() {
		gIO.Forget(base)
		_ = os.RemoveAll(base)
	}()
	var dbs [2]*kv.DB
	want := [2]map[string]string{{}, {}}
	for d := 0; d < 2; d++ {
		db, err := kv.Open(c.Opt.KV(filepath.Join(base, fmt.Sprintf("tenant%d", d))))
		if err != nil {
			return &kvh.Fail{Sig: "open-error", Msg: err.Error()}
		}
		dbs[d] = db
		for i := 0; i < c.Keys; i++ {
			k := fmt.Sprintf("t%d-key-%04d", d, i)
			v := fmt.Sprintf("t%d-value-%04d-%s", d, i, kvh.ValueDigest(kvh.GenValue(uint64(i+d*1000), 40+(i*13)%90)))
			if err := db.Put([]byte(k), []byte(v)); err != nil {
				return &kvh.Fail{Sig: "put-error", Msg: err.Error()}
			}
			want[d][k] = v
			if i%3 == 0 { // garbage for the merge to drop
				_ = db.Put([]byte(k+"-gone"), []byte(v))
				_ = db.Delete([]byte(k + "-gone"))
			}
		}
	}
	var wg sync.WaitGroup
	var merr [2]error
	start := make(chan struct{})
	for d := 0; d < 2; d++ {
		wg.Add(1)
		go func(d int) {
			defer wg.Done()
			<-start
			merr[d] = dbs[d].Merge()
		}(d)
	}
	close(start)
	wg.Wait()
	for d := 0; d < 2; d++ {
		if err := dbs[d].Close(); err != nil {
			return &kvh.Fail{Sig: "close-error", Msg: err.Error()}
		}
		if merr[d] != nil && !errors.Is(merr[d], kv.ErrMergeFileIDConflict) {
			return &kvh.Fail{Sig: "merge-error", Msg: fmt.Sprintf("tenant %d: Merge() = %v", d, merr[d])}
		}
	}
	for d := 0; d < 2; d++ {
		db, err := kv.Open(c.Opt.KV(filepath.Join(base, fmt.Sprintf("tenant%d", d))))
		if err != nil {
			return &kvh.Fail{Sig: "open-error", Msg: fmt.Sprintf("tenant %d: the Open that adopts the merge: %v", d, err)}
		}
		for k, v := range want[d] {
			got, gerr := db.Get([]byte(k))
			if gerr != nil || string(got) != v {
				_ = db.Close()
				return &kvh.Fail{Sig: "hint-entry-points-nowhere", Msg: fmt.Sprintf("two databases of one process merged at the same time; after the adopting restart tenant %d: Get(%s) = (%q, %v), want %q (the hint file does not index this database's merged files)", d, k, got, gerr, v)}
			}
		}
		if n := db.Stat().KeyNum; n != len(want[d]) {
			_ = db.Close()
			return &kvh.Fail{Sig: "enumeration-keyset", Msg: fmt.Sprintf("tenant %d holds %d keys after the adopting restart, want %d", d, n, len(want[d]))}
		}
		_ = db.Close()
	}
	return nil
}

func c18TwoMerges(t *testing.T, st *kvh.Stats) {
	e := kvh.GetEnv()
	rounds := 16
	if e.Thorough() {
		rounds = 160
	}
	for i := 0; i < rounds; i++ {
		if !e.Mine(i) {
			continue
		}
		c := &twoMergeCase{Property: "C18", Kind: "c18two", Opt: kvh.DefaultOpt(), Keys: 1500 + (i*137)%1500}
		c.Opt.Index = int8(1 + i%3)
		c.Opt.FileSize = []int64{20000, 40000, 70000}[i%3] // several merged files: only the last one is rescanned at Open
		kvh.SetInFlight(&kvh.InFlight{Property: "C18", Case: func() any { return c }})
		f := runTwoMerges(c)
		kvh.SetInFlight(nil)
		if f != nil {
			report(t, st, c, f)
		}
		st.Eval(1)
		st.Label("two-databases-of-one-process-merge-at-the-same-time")
		st.NonTrivial(kvh.Hash64([]byte(fmt.Sprintf("c18two|%+v", *c))))
	}
}

func init() {
	replayers["c05shared"] = func(_ *kvh.Case, raw []byte) *kvh.Fail {
		var c sharedBatchCase
		if err := jsonUnmarshal(raw, &c); err != nil {
			return &kvh.Fail{Sig: "harness-bad-case", Msg: err.Error()}
		}
		for i := 0; i < 30; i++ { // schedule dependent
			if f := runSharedBatch(&c); f != nil {
				return f
			}
		}
		return nil
	}
	replayers["c18two"] = func(_ *kvh.Case, raw []byte) *kvh.Fail {
		var c twoMergeCase
		if err := jsonUnmarshal(raw, &c); err != nil {
			return &kvh.Fail{Sig: "harness-bad-case", Msg: err.Error()}
		}
		for i := 0; i < 10; i++ {
			if f := runTwoMerges(&c); f != nil {
				return f
			}
		}
		return nil
	}
}
