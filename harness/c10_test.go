package harness

import (
	"bytes"
	"fmt"
	"sort"
	"testing"

	"github.com/XiXi-2024/xixi-kv/datafile"
	"github.com/XiXi-2024/xixi-kv/index"
	"pgregory.net/rapid"
	"verifharness/kvh"
)

// C10 — iterators, ListKeys and Fold enumerate a sorted, complete, stable
// snapshot. Level 1 drives index.ShardedIndex directly (fast, many shard
// layouts); level 2 drives DB.NewIterator / ListKeys / Fold with prefixes,
// values and writes interleaved after creation.

const c10Rule = "level 1: key sets of 0..40 short colliding keys x index type x shard count {1,2,3,16,1024} x direction x <= 30 calls of Rewind/Seek/Next with every Seek target at or ahead of the reference cursor, writes to the index after creation; level 2: DB histories with iterator sessions (prefixes, values, interleaved Put/Delete), ListKeys, Fold with early stop; oracle = cursor over the sorted snapshot taken at creation, compared after every call, plus a full traversal; non-trivial = snapshot keys spread over >= 2 shards and the session contains a Seek or a Rewind after a Next; distinct = hash of (type, shards, direction, keys, calls) resp. (options, ops)"

var c10Profile = &kvh.GenProfile{
	Weights: map[string]int{
		"put": 34, "del": 10, "batch": 8, "iter": 36, "listkeys": 4, "fold": 5, "reopen": 2, "merge": 1,
	},
	MaxBatchOps: 5,
	Big:         false,
	IterCalls:   24,
	IterWrites:  true,
	OptProfile:  kvh.OptProfile{MMapPercent: 10, FileSizes: []int64{200, 4096, 1 << 20}},
}

func TestC10(t *testing.T) {
	st := kvh.StatsFor("C10")
	st.SetRule(c10Rule+" || "+fmt.Sprintf(snapRule, "NewIterator (traversed later), ListKeys and Fold", "the creation of an iterator, the whole call for ListKeys and Fold"),
		"seeking backwards over keys already passed is not asserted (the generator never issues such a Seek; skipped ones are counted)",
		"a fresh iterator WITH a prefix is not read before its first Rewind/Seek",
		"bounds: <= 40 keys at index level, <= 14 keys at DB level, <= 30 calls per session")
	defer finishProperty(st)
	t.Run("index", func(t *testing.T) {
		// level 1 is ~30x cheaper than a DB history: run a multiple of the requested count
		restore := scaleRapidChecks(8)
		defer restore()
		checkCases(t, st, func(t *rapid.T) { c10IndexCase(t, st) })
	})
	t.Run("db", func(t *testing.T) {
		checkCases(t, st, func(t *rapid.T) {
			runHistoryCase(t, "C10", c10Profile, func(r *kvh.Runner) bool { return r.F.IterNonTrivial > 0 })
		})
	})
	t.Run("under-a-writer", func(t *testing.T) {
		restore := scaleRapidChecksDiv(4)
		defer restore()
		snapConcurrent(t, st, "C10", []string{"iterator", "listkeys", "fold"}, 0)
	})
}

type c10Case struct {
	Property string      `json:"property"`
	Kind     string      `json:"kind"`
	Index    int8        `json:"index"`
	Shards   int         `json:"shards"`
	Keys     [][]byte    `json:"keys"`
	Spec     *kvh.IterOp `json:"spec"`
}

var c10KeyGen = rapid.Custom(func(t *rapid.T) []byte {
	n := 1 + kvh.U(t, 5, "klen")
	alphabet := []byte{'a', 'b', 'c', 0x00, 0xff, 'a', 'b'}
	k := make([]byte, n)
	for i := range k {
		k[i] = kvh.Pick(t, alphabet, "kb")
	}
	return k
})

func c10IndexCase(t *rapid.T, st *kvh.Stats) {
	c := &c10Case{Property: "C10", Kind: "c10index"}
	c.Index = int8(1 + kvh.U(t, 3, "index"))
	c.Shards = kvh.Pick(t, []int{1, 2, 3, 16, 16, 2, 1024}, "shards")
	nk := kvh.U(t, 41, "nkeys")
	if kvh.Pct(t, 6, "manykeys") {
		nk = 150 + kvh.U(t, 250, "nmany") // deep shards: B-tree nodes split beyond 65 items
	}
	// structured keys: a common prefix of 7, 8 or 12 bytes in front of the short keys, so that keys agree in their
	// first machine word and differ behind it (ordered containers that compare by a leading word first)
	prefixMode := kvh.U(t, 100, "prefixmode")
	prefixes := [][]byte{[]byte("user:00"), []byte("0123456"), []byte("01234567"), []byte("0123456789ab"), {0xff, 0xff, 0xff, 0xff, 0xff, 0xff, 0xff, 0xff}}
	seen := map[string]bool{}
	for i := 0; i < nk; i++ {
		k := c10KeyGen.Draw(t, "key")
		if prefixMode < 12 || (prefixMode < 28 && kvh.Pct(t, 60, "prefixed")) {
			k = append(append([]byte(nil), prefixes[(prefixMode+kvh.U(t, 2, "pfx"))%len(prefixes)]...), k...)
		}
		if !seen[string(k)] {
			seen[string(k)] = true
			c.Keys = append(c.Keys, k)
		}
	}
	spec := &kvh.IterOp{Reverse: rapid.Bool().Draw(t, "reverse")}
	n := kvh.U(t, 31, "ncalls")
	for i := 0; i < n; i++ {
		x := kvh.U(t, 100, "call")
		switch {
		case x < 42:
			spec.Calls = append(spec.Calls, kvh.IterCall{C: "next"})
		case x < 54:
			spec.Calls = append(spec.Calls, kvh.IterCall{C: "rewind"})
		case x < 90:
			var target []byte
			if len(c.Keys) > 0 && kvh.Pct(t, 70, "fromkeys") {
				target = append([]byte(nil), kvh.Pick(t, c.Keys, "tk")...)
				switch kvh.U(t, 4, "tmod") {
				case 1:
					target = append(target, 0x00)
				case 2:
					if target[len(target)-1] > 0 {
						target[len(target)-1]--
						target = append(target, 0xff)
					}
				}
			} else {
				target = c10KeyGen.Draw(t, "target")
			}
			spec.Calls = append(spec.Calls, kvh.IterCall{C: "seek", Key: target})
		default:
			k := c10KeyGen.Draw(t, "wkey")
			w := kvh.Op{K: "put", Key: k}
			if rapid.Bool().Draw(t, "wdel") {
				w.K = "del"
			}
			spec.Calls = append(spec.Calls, kvh.IterCall{C: "write", Op: &w})
		}
	}
	c.Spec = spec
	feat, f := runC10Index(c)
	if f != nil {
		report(t, st, c, f)
	}
	st.Eval(1)
	lab := map[string]int{}
	feat.AddTo(lab, spec)
	for k := range lab {
		st.Label("L1-" + k)
	}
	st.Label(fmt.Sprintf("L1-index%d", c.Index))
	spread := kvh.ShardsUsed(c.Keys, c.Shards)
	if spread >= 2 {
		st.Label("L1-keys-in->=2-shards")
	}
	if spread >= 2 && (feat.Seeks > 0 || feat.RewindAfterNext) {
		parts := [][]byte{{byte(c.Index)}, []byte(fmt.Sprint(c.Shards, spec.Reverse))}
		parts = append(parts, c.Keys...)
		for _, cl := range spec.Calls {
			parts = append(parts, []byte(cl.C), cl.Key)
		}
		st.NonTrivial(kvh.Hash64(parts...))
		if st.WantSample() {
			st.Sample(map[string]any{"level": 1, "index": c.Index, "shards": c.Shards, "keys": fmt.Sprintf("%q", c.Keys), "session": kvh.Abbrev(kvh.Opt{}, []kvh.Op{{K: "iter", Iter: spec}})["ops"]})
		} else {
			st.Sample(nil)
		}
	}
}

func runC10Index(c *c10Case) (*kvh.IterFeatures, *kvh.Fail) {
	idx := index.NewShardedIndex(index.IndexType(c.Index), c.Shards)
	model := map[string][]byte{}
	posOf := map[string]*datafile.DataPos{}
	for i, k := range c.Keys {
		p := &datafile.DataPos{Fid: uint32(i + 1), Offset: uint32(i)}
		idx.Put(append([]byte(nil), k...), p)
		model[string(k)] = []byte{byte(i)}
		posOf[string(k)] = p
	}
	m := kvh.NewModelIter(model, nil, c.Spec.Reverse)
	it := idx.Iterator(c.Spec.Reverse)
	defer it.Close()
	checkValue := func(pos int) *kvh.Fail {
		got := it.Value()
		want := posOf[string(m.Keys[pos])]
		if got == nil || *got != *want {
			return &kvh.Fail{Sig: "iter-value", Msg: fmt.Sprintf("Value() of %q = %+v, position at creation was %+v", m.Keys[pos], got, want)}
		}
		return nil
	}
	wn := 0
	apply := func(w *kvh.Op) *kvh.Fail {
		wn++
		if w.K == "del" {
			idx.Delete(w.Key)
		} else {
			idx.Put(append([]byte(nil), w.Key...), &datafile.DataPos{Fid: uint32(9000 + wn)})
		}
		return nil
	}
	feat, f := kvh.RunIterCalls(it, m, c.Spec, true, checkValue, apply, nil)
	if f != nil {
		return feat, f
	}
	// the sharded index itself must still agree with a plain sorted enumeration
	it2 := idx.Iterator(false)
	defer it2.Close()
	var got []string
	for it2.Rewind(); it2.Valid(); it2.Next() {
		got = append(got, string(it2.Key()))
	}
	if !sort.StringsAreSorted(got) {
		return feat, &kvh.Fail{Sig: "enumeration-unsorted", Msg: fmt.Sprintf("index enumeration not ascending: %q", got)}
	}
	for i := 1; i < len(got); i++ {
		if bytes.Equal([]byte(got[i]), []byte(got[i-1])) {
			return feat, &kvh.Fail{Sig: "iter-duplicate-key", Msg: fmt.Sprintf("key %q enumerated twice", got[i])}
		}
	}
	if len(got) != idx.Size() {
		return feat, &kvh.Fail{Sig: "iter-missing-key", Msg: fmt.Sprintf("enumeration yields %d keys, Size() = %d", len(got), idx.Size())}
	}
	return feat, nil
}

func init() {
	replayers["c10index"] = func(_ *kvh.Case, raw []byte) *kvh.Fail {
		var c c10Case
		if err := jsonUnmarshal(raw, &c); err != nil {
			return &kvh.Fail{Sig: "harness-bad-case", Msg: err.Error()}
		}
		_, f := runC10Index(&c)
		return f
	}
}
