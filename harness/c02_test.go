package harness

import (
	"fmt"
	"testing"

	"pgregory.net/rapid"
	"verifharness/kvh"
)

// C02 — clean restart preserves the mapping under any writer/reader
// configuration pair; Open never panics or fails after a clean Close.

var c02Profile = &kvh.GenProfile{
	Weights: map[string]int{
		"put": 38, "del": 14, "get": 4, "batch": 14, "sync": 2, "merge": 6, "wipe": 2,
		"reopen": 14, "listkeys": 2, "fold": 2, "stat": 1,
	},
	MaxBatchOps: 8,
	Big:         true,
}

const c02Rule = "C01's state machine plus Close/Open with independently drawn options (index, shards, I/O type, file-size limit, sync strategy); enumerated band (file ends within +-9 B of a block boundary, plain and batch written, both I/O types) and a sweep over end-of-file residues; non-trivial = the history contains a reopen preceded (since the previous reopen) by a committed batch, a delete of a live key, a rotation or a successful merge; distinct = hash of (options, concrete ops) resp. the enumerated coordinates"

func c02NonTrivial(r *kvh.Runner) bool {
	n := 0
	for _, v := range r.F.ReopenAfter {
		n += v
	}
	return r.F.Reopens > 0 && n > 0
}

func TestC02(t *testing.T) {
	st := kvh.StatsFor("C02")
	st.SetRule(c02Rule,
		"directories are produced by this engine's clean Close only (C03/C12 cover anything else)",
		"the dump compared before Close and after Open is: sorted ListKeys, Get of every model key and of deleted probe keys, Fold pairs, Stat.KeyNum",
		"bounds as C01; 1..~6 reopens per history")
	defer finishProperty(st)
	t.Run("band", func(t *testing.T) { boundaryBand(t, "C02", true) })
	t.Run("residues", func(t *testing.T) { residueSweep(t) })
	t.Run("random", func(t *testing.T) {
		checkCases(t, st, func(t *rapid.T) {
			runHistoryCase(t, "C02", c02Profile, c02NonTrivial)
		})
	})
}

// residueSweep makes the newest data file end at residue r of a block, closes,
// reopens (with other options) and compares. Quick: the +-9 band and 256
// spread residues; thorough: every residue 0..32767.
func residueSweep(t *testing.T) {
	e := kvh.GetEnv()
	st := kvh.StatsFor("C02")
	var residues []int64
	if e.Thorough() {
		for r := int64(0); r < kvh.BlockSize; r++ {
			residues = append(residues, r)
		}
	} else {
		for r := int64(0); r <= 12; r++ {
			residues = append(residues, r, kvh.BlockSize-1-r)
		}
		step := int64(127)
		for r := int64(13) + e.Seed%step; r < kvh.BlockSize-13; r += step {
			residues = append(residues, r)
		}
	}
	reached := int64(0)
	for i, res := range residues {
		if !e.Mine(i) {
			continue
		}
		writer := kvh.Opt{Index: int8(1 + i%3), Shards: []int{1, 2, 16}[i%3], IO: 0, FileSize: 1 << 20, BytesPerSync: 1}
		reader := kvh.Opt{Index: int8(1 + (i+1)%3), Shards: []int{16, 1, 3}[i%3], IO: byte((i / 7) % 2), FileSize: []int64{1 << 20, 4096, 70000}[i%3], BytesPerSync: 1}
		if !e.Thorough() && i%4 != 0 {
			reader.IO = 0
		}
		r, f := kvh.NewRunner("C02", writer, gIO)
		if f != nil {
			report(t, st, &kvh.Case{Property: "C02", Kind: "history", Opt: writer}, f)
		}
		func() {
			defer r.Cleanup()
			kvh.SetInFlight(&kvh.InFlight{Property: "C02", Case: func() any { return r.AsCase("C02", "history", writer) }})
			defer kvh.SetInFlight(nil)
			target := res
			if target < 40 {
				target += kvh.BlockSize
			}
			vlen, _ := kvh.SteerVLen(0, 1, 0, target)
			ops := []kvh.Op{
				{K: "put", Key: []byte("k"), VLen: vlen, VSeed: r.NextSeed()},
			}
			for _, op := range ops {
				if f := r.Step(op); f != nil {
					report(t, st, r.AsCase("C02", "history", writer), f)
				}
			}
			end := r.ActiveOffset()
			for _, op := range []kvh.Op{
				{K: "reopen", Opt: &reader},
				{K: "put", Key: []byte("z"), VLen: 5, VSeed: r.NextSeed()},
				{K: "reopen", Opt: &writer},
			} {
				if f := r.Step(op); f != nil {
					report(t, st, r.AsCase("C02", "history", writer), f)
				}
			}
			if f := r.Finish(); f != nil {
				report(t, st, r.AsCase("C02", "history", writer), f)
			}
			st.Eval(1)
			if end%kvh.BlockSize == res {
				reached++
				st.NonTrivial(kvh.Hash64([]byte(fmt.Sprintf("residue|%d", res))))
				st.Label("residue-reached")
			} else {
				st.Label("residue-unreachable-or-missed")
			}
			if st.WantSample() {
				st.Sample(map[string]any{"residue": res, "file_end": end, "writer": writer.String(), "reader": reader.String(), "ops": kvh.Abbrev(writer, r.Ops)["ops"]})
			} else {
				st.Sample(nil)
			}
		}()
	}
	if e.Thorough() {
		st.Exhaustive("end-of-file residues 0..32767 of the newest data file (residues 1..10 cannot be the end of a record)", int64(len(residues)))
	}
	st.ExtraAdd("residues_reached", reached)
}
