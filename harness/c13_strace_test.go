package harness

import (
	"encoding/json"
	"fmt"
	"os"
	"os/exec"
	"path/filepath"
	"regexp"
	"strconv"
	"strings"
	"testing"

	"pgregory.net/rapid"
	"verifharness/kvh"
)

// Hook-fidelity pass of C13: the shadow used by the sync-policy oracle is fed
// by hook lines, and a hook line can survive an edit that removes (or makes
// conditional) the real call next to it. Here a child process executes
// generated workloads under strace and the sequence of write/fsync/ftruncate
// system calls per file must equal the sequence of hook events per file.
// For the memory-mapped back-end stores are not system calls: there the number of msync calls must equal the
// number of announced flushes and the ftruncate calls per file must match.

type straceArg struct {
	Opt kvh.Opt  `json:"options"`
	Ops []kvh.Op `json:"ops"`
}

type ioOp struct {
	Kind string `json:"kind"`
	N    int64  `json:"n,omitempty"`
}

func init() {
	childEntries["c13strace"] = func() int {
		work := os.Getenv("VERIF_CHILD_ARG")
		raw, err := os.ReadFile(filepath.Join(work, "arg.json"))
		if err != nil {
			fmt.Println("child: ", err)
			return 3
		}
		var a straceArg
		if err := json.Unmarshal(raw, &a); err != nil {
			return 3
		}
		log := kvh.NewIOLog()
		log.Record = true
		kvh.Install(log)
		r, f := kvh.NewRunner("C13", a.Opt, log)
		if f != nil {
			fmt.Println("child: open:", f.Msg)
			return 3
		}
		r.NoDump = true
		for _, op := range a.Ops {
			if f := r.Step(op); f != nil {
				fmt.Println("child: step:", f.Msg)
				return 3
			}
		}
		if f := r.CloseOnly(); f != nil {
			fmt.Println("child:", f.Msg)
			return 3
		}
		per := map[string][]ioOp{}
		for _, ev := range log.Events {
			switch ev.Kind {
			case "write", "sync", "truncate":
				o := ioOp{Kind: ev.Kind}
				if ev.Kind != "sync" {
					o.N = ev.N
				}
				per[ev.Path] = append(per[ev.Path], o)
			}
		}
		b, _ := json.Marshal(per)
		if err := os.WriteFile(filepath.Join(work, "events.json"), b, 0o644); err != nil {
			return 3
		}
		return 0
	}
}

var straceLine = regexp.MustCompile(`^\d+\s+(write|pwrite64|fsync|fdatasync|ftruncate)\((\d+)<([^>]*)>(.*)$`)

// parseStrace extracts, per file, the write/fsync/ftruncate calls.
func parseStrace(trace string, under string) map[string][]ioOp {
	per := map[string][]ioOp{}
	for _, line := range strings.Split(trace, "\n") {
		m := straceLine.FindStringSubmatch(line)
		if m == nil {
			continue
		}
		path := m[3]
		if !strings.HasPrefix(path, under) {
			continue
		}
		base := filepath.Base(path)
		if !(strings.HasSuffix(base, ".data") || strings.HasSuffix(base, ".hint") || strings.HasSuffix(base, ".merge-finished")) {
			continue
		}
		rest := m[4]
		switch m[1] {
		case "write", "pwrite64":
			// …, "bytes"..., COUNT) = RET   or   …, COUNT <unfinished ...>
			n := int64(-1)
			if i := strings.LastIndex(rest, ") = "); i >= 0 {
				if v, err := strconv.ParseInt(strings.TrimSpace(rest[i+4:]), 10, 64); err == nil {
					n = v
				}
			} else {
				r2 := strings.TrimSuffix(strings.TrimSpace(rest), "<unfinished ...>")
				r2 = strings.TrimSpace(r2)
				if j := strings.LastIndex(r2, ", "); j >= 0 {
					if v, err := strconv.ParseInt(strings.TrimSpace(r2[j+2:]), 10, 64); err == nil {
						n = v
					}
				}
			}
			per[path] = append(per[path], ioOp{Kind: "write", N: n})
		case "fsync", "fdatasync":
			per[path] = append(per[path], ioOp{Kind: "sync"})
		case "ftruncate":
			r2 := strings.TrimPrefix(rest, ", ")
			if j := strings.IndexAny(r2, ") "); j >= 0 {
				r2 = r2[:j]
			}
			v, _ := strconv.ParseInt(r2, 10, 64)
			per[path] = append(per[path], ioOp{Kind: "truncate", N: v})
		}
	}
	return per
}

func straceOne(a *straceArg) (hooks, calls map[string][]ioOp, work string, err error) {
	e := kvh.GetEnv()
	work = e.NewDir("c13strace")
	raw, _ := json.Marshal(a)
	if err := os.WriteFile(filepath.Join(work, "arg.json"), raw, 0o644); err != nil {
		return nil, nil, work, err
	}
	exe, err := os.Executable()
	if err != nil {
		return nil, nil, work, err
	}
	tr := filepath.Join(work, "trace.txt")
	cmd := exec.Command("strace", "-f", "-y", "-s", "0", "-o", tr, "-e", "trace=write,pwrite64,fsync,fdatasync,ftruncate,msync", exe)
	cmd.Env = append(os.Environ(), "VERIF_CHILD=c13strace", "VERIF_CHILD_ARG="+work, "VERIF_SCRATCH="+filepath.Join(work, "scratch"), "VERIF_OUT="+filepath.Join(work, "out"))
	out, err := cmd.CombinedOutput()
	if err != nil {
		return nil, nil, work, fmt.Errorf("strace child: %v: %s", err, tailStr(string(out), 600))
	}
	eb, err := os.ReadFile(filepath.Join(work, "events.json"))
	if err != nil {
		return nil, nil, work, err
	}
	hooks = map[string][]ioOp{}
	if err := json.Unmarshal(eb, &hooks); err != nil {
		return nil, nil, work, err
	}
	tb, err := os.ReadFile(tr)
	if err != nil {
		return nil, nil, work, err
	}
	calls = parseStrace(string(tb), filepath.Join(work, "scratch"))
	// msync carries no path: under MMap only the number of flushes can be compared
	n := int64(0)
	for _, line := range strings.Split(string(tb), "\n") {
		if msyncLine.MatchString(line) {
			n++
		}
	}
	calls["<msync>"] = []ioOp{{Kind: "msync-count", N: n}}
	return hooks, calls, work, nil
}

var msyncLine = regexp.MustCompile(`^\d+\s+msync\(`)

func compareIO(hooks, calls map[string][]ioOp, mmap bool) *kvh.Fail {
	msyncs := int64(0)
	if l := calls["<msync>"]; len(l) == 1 {
		msyncs = l[0].N
	}
	delete(calls, "<msync>")
	if mmap {
		// memory-mapped back-end: stores are not system calls; compare the flush count and the truncations per file
		syncs := int64(0)
		ht, ct := map[string][]ioOp{}, map[string][]ioOp{}
		for p, l := range hooks {
			for _, o := range l {
				switch o.Kind {
				case "sync":
					syncs++
				case "truncate":
					ht[p] = append(ht[p], o)
				}
			}
		}
		for p, l := range calls {
			for _, o := range l {
				switch o.Kind {
				case "truncate":
					ct[p] = append(ct[p], o)
				case "sync":
					msyncs++ // the merge-finished marker is always read through the standard back-end: its Close fsyncs
				}
			}
		}
		if syncs > msyncs {
			return &kvh.Fail{Sig: "io-announced-but-not-performed", Msg: fmt.Sprintf("memory-mapped back-end: the engine announced %d flushes but issued only %d msync/fsync system calls", syncs, msyncs)}
		}
		if syncs < msyncs {
			return &kvh.Fail{Sig: "harness-unhooked-io", Msg: fmt.Sprintf("memory-mapped back-end: %d msync/fsync calls but only %d hook events", msyncs, syncs)}
		}
		hooks, calls = ht, ct
	}
	paths := map[string]bool{}
	for p := range hooks {
		paths[p] = true
	}
	for p := range calls {
		paths[p] = true
	}
	for p := range paths {
		h, c := hooks[p], calls[p]
		// zero-byte writes announced by a hook need no system call to have their effect
		var h2 []ioOp
		for _, o := range h {
			if o.Kind == "write" && o.N == 0 {
				continue
			}
			h2 = append(h2, o)
		}
		var c2 []ioOp
		for _, o := range c {
			if o.Kind == "write" && o.N == 0 {
				continue
			}
			c2 = append(c2, o)
		}
		n := min(len(h2), len(c2))
		for i := 0; i < n; i++ {
			if h2[i].Kind != c2[i].Kind || (h2[i].Kind != "sync" && c2[i].N >= 0 && h2[i].N != c2[i].N) {
				return &kvh.Fail{Sig: "io-announced-but-not-performed", Msg: fmt.Sprintf("%s: operation %d announced to the harness is %s(%d) but the system call issued is %s(%d)", filepath.Base(p), i, h2[i].Kind, h2[i].N, c2[i].Kind, c2[i].N)}
			}
		}
		if len(h2) > len(c2) {
			return &kvh.Fail{Sig: "io-announced-but-not-performed", Msg: fmt.Sprintf("%s: the engine announced %d write/sync/truncate operations but issued only %d system calls; first one without a system call: %s(%d)", filepath.Base(p), len(h2), len(c2), h2[n].Kind, h2[n].N)}
		}
		if len(c2) > len(h2) {
			return &kvh.Fail{Sig: "harness-unhooked-io", Msg: fmt.Sprintf("%s: %d system calls but only %d hook events; first unannounced call: %s(%d)", filepath.Base(p), len(c2), len(h2), c2[n].Kind, c2[n].N)}
		}
	}
	return nil
}

var c13StraceProfile = &kvh.GenProfile{
	Weights: map[string]int{
		"put": 46, "del": 10, "batch": 20, "sync": 8, "reopen": 6, "merge": 6,
	},
	MaxBatchOps: 4,
	Big:         false,
	ReopenSame:  true,
	OptProfile:  kvh.OptProfile{MMapPercent: 35, FileSizes: []int64{200, 1000, 4096, 1 << 20}},
}

// c13Fidelity runs n generated workloads under strace.
func c13Fidelity(t *testing.T, st *kvh.Stats, n int) {
	if _, err := exec.LookPath("strace"); err != nil {
		st.Label("strace-not-available")
		return
	}
	// the workloads are generated with rapid against a live runner, then re-executed in the traced child
	restore := setRapidChecks(n)
	defer restore()
	rapid.Check(t, func(t *rapid.T) {
		a := &straceArg{Opt: kvh.GenOpt(t, "opt", c13StraceProfile.OptProfile)}
		r, f := kvh.NewRunner("C13", a.Opt, gIO)
		if f != nil {
			t.Fatalf("harness: %s", f.Msg)
		}
		pool := kvh.GenKeyPool(t, false)
		for i, m := 0, 4+kvh.U(t, 10, "nops"); i < m; i++ {
			op := kvh.GenOp(t, r, pool, c13StraceProfile)
			if f := r.Step(op); f != nil {
				r.Cleanup()
				t.Fatalf("harness: generating the workload: %s", f.Msg)
			}
			a.Ops = append(a.Ops, op)
		}
		r.Cleanup()
		hooks, calls, work, err := straceOne(a)
		defer os.RemoveAll(work)
		if err != nil {
			st.Label("strace-run-failed")
			t.Logf("strace pass inconclusive: %v", err)
			return
		}
		if f := compareIO(hooks, calls, a.Opt.IO == 1); f != nil {
			if strings.HasPrefix(f.Sig, "harness") {
				st.Label("strace-" + f.Sig)
				t.Logf("strace pass: %s", f.Msg)
				return
			}
			report(t, st, &kvh.Case{Property: "C13", Kind: "c13strace", Opt: a.Opt, Ops: a.Ops}, f)
		}
		total := 0
		for _, l := range calls {
			total += len(l)
		}
		st.Eval(1)
		st.Label("workload-cross-checked-against-strace")
		st.ExtraAdd("syscalls_matched_with_hook_events", int64(total))
		if total >= 4 {
			st.NonTrivial(kvh.Hash64([]byte(fmt.Sprintf("strace|%v|%v", a.Opt, a.Ops))))
		}
	})
}

func init() {
	replayers["c13strace"] = func(c *kvh.Case, raw []byte) *kvh.Fail {
		a := &straceArg{Opt: c.Opt, Ops: c.Ops}
		hooks, calls, work, err := straceOne(a)
		defer os.RemoveAll(work)
		if err != nil {
			return &kvh.Fail{Sig: "harness-strace", Msg: err.Error()}
		}
		return compareIO(hooks, calls, c.Opt.IO == 1)
	}
}
