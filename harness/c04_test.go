package harness

import (
	"fmt"
	"testing"

	"pgregory.net/rapid"
	"verifharness/kvh"
)

// C04 — a batch is all-or-nothing and, once committed, durable.

var c04Profile = &kvh.GenProfile{
	Weights: map[string]int{
		"batch": 46, "put": 28, "del": 8, "sync": 3, "merge": 4, "wipe": 2, "reopen": 7, "get": 1,
	},
	MaxBatchOps: 12,
	Big:         true,
	ReopenSame:  true,
	OptProfile:  kvh.OptProfile{NoMMap: true, FileSizes: []int64{200, 1000, 4096, 40000, 1 << 20}},
}

const c04Rule = "histories of plain ops, batches (1..12 Put/Delete incl. repeated keys and sizes that exceed DataFileSize so that the batch is flushed in pieces across files, Sync option on/off), later writes, merges and clean restarts; crash instants = every intercepted event from NewBatch until after Commit returned plus the later ones (thorough: all; quick: a generated subset), both crash kinds; oracle: (i) prefix oracle with the batch as ONE mutation (all or nothing), (ii) after Commit returned the live dump and the dump after every later clean restart equal the reference map, (iii) when Commit of a Sync batch returns every byte the batch wrote incl. its sealing record lies below the synced length of its file, so that the power-loss images cut at the synced lengths must show the batch (prefix oracle with L); non-trivial = image frozen inside a batch operation after its first write, or taken after a restart that followed a committed batch; distinct = hash of (case, event, cut vector)"

func c04Setup(x *crashExec) {
	batchesSinceReopen, restartAfterBatch := 0, false
	x.afterStep = func(x *crashExec, op *kvh.Op, mutated bool) *kvh.Fail {
		switch op.K {
		case "batch":
			if mutated {
				batchesSinceReopen++
				if x.r.F.MidBatchFlush > 0 {
					x.cs.labels["batch-flushed-in-pieces-across-files"]++
				}
			}
			if op.Sync && mutated {
				x.cs.labels["sync-batch-committed"]++
				// every byte this batch wrote (records and sealing record) must be below its file's synced length
				for _, e := range x.extents[len(x.extents)-1] {
					fs, known := gIO.Get(e.path)
					if !known || e.end > fs.Synced {
						return &kvh.Fail{Sig: "sync-batch-not-durable-at-commit-return", Msg: fmt.Sprintf("Commit of a Sync batch returned, but bytes it wrote up to offset %d of %s lie beyond that file's synced length %d (its records or its sealing record are unsynced)", e.end, relTo(x.r.Base, e.path), fs.Synced)}
					}
				}
				if len(x.extents[len(x.extents)-1]) > 0 {
					x.cs.labels["sync-batch-wrote-and-is-synced"]++
				}
			}
		case "reopen":
			if batchesSinceReopen > 0 {
				restartAfterBatch = true
				x.cs.labels["clean-restart-after-committed-batch"]++
			}
			batchesSinceReopen = 0
		}
		return nil
	}
	x.nonTrivial = func(x *crashExec, inst *kvh.Instant, cuts map[string]int64) bool {
		if inst.InFlight && inst.OpKind == "batch" && inst.OpWrites > 0 {
			x.cs.labels["image-inside-batch-after-first-write"]++
			return true
		}
		return restartAfterBatch && inst.Acked >= 1
	}
}

func init() { crashSetups["C04"] = c04Setup }

func TestC04(t *testing.T) {
	st := kvh.StatsFor("C04")
	st.SetRule(c04Rule,
		"crash model as C03 (crashes between I/O calls; power loss = loss of a suffix of each unsynced region; directory operations durable in order); standard I/O (MMap crash images are the known finding recorded under C03)",
		"batch ids are time based: a batch started on a recovered image within the same millisecond as the crashed one could share its id; continuation writes on recovered images are plain Puts, so the assumption is not exercised",
		"evaluations counts opened images")
	defer finishProperty(st)
	t.Run("merge-batch-probe", func(t *testing.T) { c04MergeBatchProbe(t, st) })
	checkCases(t, st, func(t *rapid.T) { c03Run(t, st, "C04", c04Profile, c04Setup) })
}
