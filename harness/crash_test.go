package harness

import (
	"errors"
	"fmt"
	"os"
	"path/filepath"
	"sort"
	"strings"
	"time"

	kv "github.com/XiXi-2024/xixi-kv"
	"verifharness/kvh"
)

// Shared crash-enumeration machinery of C03, C04 (and the adoption levels of
// C07): a workload is executed once; at selected intercepted events the files
// are frozen; after the operation in flight has returned (so that the state
// it leads to is known) every frozen instant is expanded into images -
// process crash and power-loss cuts - which are opened with the real Open and
// compared with the prefix oracle.

type crashCase struct {
	Property string   `json:"property"`
	Kind     string   `json:"kind"`
	Opt      kvh.Opt  `json:"options"`
	Ops      []kvh.Op `json:"ops"`
	SelSeed  uint64   `json:"selSeed"`
	SelPct   int      `json:"selPct"` // percentage of events frozen (100 = all)
	// ImgCap bounds the cost of one case: once that many images were opened, only a twelfth of the selected events is still frozen (0 = no bound)
	ImgCap      int            `json:"imgCap,omitempty"`
	Reader      *kvh.Opt       `json:"reader,omitempty"`
	MaxCuts     int            `json:"maxCuts"`
	NoPowerLoss bool           `json:"noPowerLoss,omitempty"`
	Only        *kvh.CrashSpec `json:"crash,omitempty"` // replay: just this image
	Note        string         `json:"note,omitempty"`
}

type mutExtent struct {
	path string
	end  int64
}

type crashStats struct {
	instants, images, nontrivial, nested int
	labels                               map[string]int
	hashes                               []uint64
	sample                               map[string]any
}

type crashExec struct {
	c         *crashCase
	r         *kvh.Runner
	st        *kvh.Stats
	cs        *crashStats
	states    []uint64
	stateDesc []string
	extents   [][]mutExtent // per acknowledged mutation
	cur       []mutExtent
	acked     int
	inflight  bool
	opIndex   int
	opKind    string
	eventN    int
	opWrites  int
	floor     int // mutations made durable by a clean Close (reopen)
	pending   []*kvh.Instant
	imgRoot   string
	fail      *kvh.Fail
	failSpec  *kvh.CrashSpec
	// C04: the op index of the batch under observation and whether a Sync batch's durability is asserted
	materialiseKeepPhysical bool
	nestedDepth             int  // how many levels of crash-during-recovery are enumerated (0 = none)
	nestedMax               int  // cap of nested instants per Open (0 = all)
	nestedCreates           bool // file creations and directory operations during a recovery Open are crash instants too (C07)
	uniq                    int
	cutShort                bool
	afterStep               func(x *crashExec, op *kvh.Op, mutated bool) *kvh.Fail
	nonTrivial              func(x *crashExec, inst *kvh.Instant, cuts map[string]int64) bool
	onVerify                func(x *crashExec, inst *kvh.Instant, cuts map[string]int64, dump map[string][]byte, j int) *kvh.Fail
}

func (x *crashExec) selected(k int) bool {
	if x.c.Only != nil {
		return k == x.c.Only.Event
	}
	if kvh.GetEnv().PastSoftDeadline() {
		// the run is out of time: the case in flight ends without freezing further instants
		if !x.cutShort {
			x.cutShort = true
			x.st.ExtraAdd("cases_cut_short_at_soft_deadline", 1)
		}
		return false
	}
	h := kvh.Hash64([]byte(fmt.Sprintf("%d|%d", x.c.SelSeed, k)))
	if x.c.ImgCap > 0 && x.cs.images >= x.c.ImgCap && (h/100)%12 != 0 {
		return false
	}
	if x.c.SelPct >= 100 {
		return true
	}
	return int(h%100) < x.c.SelPct
}

// durable computes L: the number of leading mutations all of whose bytes lie
// below the synced length of their file right now.
func (x *crashExec) durable() int {
	l := 0
	for i, exts := range x.extents {
		if i < x.floor {
			l++
			continue
		}
		ok := true
		for _, e := range exts {
			fs, known := gIO.Get(e.path)
			if !known || e.end > fs.Synced {
				ok = false
				break
			}
		}
		if !ok {
			break
		}
		l++
	}
	return l
}

func (x *crashExec) freeze(ev kvh.Event) {
	inst, err := kvh.CaptureInstant(gIO, x.r.Base, x.imgRoot, x.eventN)
	if err != nil {
		if x.fail == nil {
			x.fail = &kvh.Fail{Sig: "harness-capture", Msg: err.Error()}
		}
		return
	}
	inst.Event = ev
	inst.Event.Seq = x.eventN
	inst.Acked = x.acked
	inst.InFlight = x.inflight
	inst.OpIndex = x.opIndex
	inst.OpKind = x.opKind
	inst.OpWrites = x.opWrites
	inst.Durable = x.durable()
	x.pending = append(x.pending, inst)
}

func (x *crashExec) onEvent(ev kvh.Event) {
	if ev.Kind == "point" {
		if !x.inflight || x.opKind != "merge" || !strings.HasPrefix(ev.Name, "merge.") {
			return
		}
	} else if !strings.HasPrefix(ev.Path, x.r.Base+"/") || strings.HasPrefix(ev.Path, x.imgRoot+"/") {
		return
	}
	x.eventN++
	if os.Getenv("VERIF_DEBUG") != "" {
		fs, _ := gIO.Get(ev.Path)
		fmt.Printf("DEBUG event %d %s %s n=%d name=%s (logical %d synced %d)\n", x.eventN, ev.Kind, relTo(x.r.Base, ev.Path), ev.N, ev.Name, fs.Logical, fs.Synced)
	}
	if x.selected(x.eventN) {
		x.freeze(ev)
	}
	if ev.Kind == "write" && x.inflight && strings.HasPrefix(ev.Path, x.r.Dir+"/") && strings.HasSuffix(ev.Path, ".data") {
		fs, _ := gIO.Get(ev.Path)
		x.cur = append(x.cur, mutExtent{path: ev.Path, end: fs.Logical + ev.N})
		x.opWrites++
	}
}

// cutVectors generates the power-loss cut vectors of an instant.
func (x *crashExec) cutVectors(inst *kvh.Instant) []map[string]int64 {
	uns := inst.Unsynced()
	if len(uns) == 0 || x.c.NoPowerLoss {
		return nil
	}
	if x.c.Only != nil {
		if len(x.c.Only.Cuts) == 0 {
			return nil
		}
		// a pinned cut vector only applies if it is a possible power-loss outcome of THIS execution: every cut
		// must lie inside the unsynced tail of its file at this instant (event numbers shift with the map order of
		// Merge, and a case harvested from a defective tree can name a file that is synced here)
		for rel, c := range x.c.Only.Cuts {
			ok := false
			for _, f := range uns {
				if f.Rel == rel && c >= f.Synced && c <= f.Logical {
					ok = true
				}
			}
			if !ok {
				x.cs.labels["pinned-cut-not-admissible-here"]++
				return nil
			}
		}
		return []map[string]int64{x.c.Only.Cuts}
	}
	// primary: the data-directory file with the longest unsynced tail
	sort.Slice(uns, func(i, j int) bool {
		ai, aj := strings.HasPrefix(uns[i].Rel, "db/"), strings.HasPrefix(uns[j].Rel, "db/")
		if ai != aj {
			return ai
		}
		return uns[i].Logical-uns[i].Synced > uns[j].Logical-uns[j].Synced
	})
	prim := uns[0]
	cand := map[int64]bool{prim.Synced: true, prim.Logical: true}
	if prim.Logical-prim.Synced <= 64 {
		for c := prim.Synced; c <= prim.Logical; c++ {
			cand[c] = true
		}
	} else {
		// record boundaries inside the tail (scanned from the frozen logical bytes), +-1, and interior points
		if strings.HasSuffix(prim.Rel, ".data") {
			var fs *kvh.FileScan
			gIO.Muted(func() { fs = kvh.ScanDataFile(inst.FrozenPath(prim.Rel), -1, x.imgRoot) })
			for _, rec := range fs.Records {
				end := int64(rec.Pos.BlockID)*kvh.BlockSize + int64(rec.Pos.Offset) + int64(rec.Pos.Size)
				for _, c := range []int64{end - 1, end, end + 1, end + 3, end + 7, end + 8} {
					if c >= prim.Synced && c <= prim.Logical {
						cand[c] = true
					}
				}
			}
		}
		span := prim.Logical - prim.Synced
		for i := int64(1); i <= 6; i++ {
			cand[prim.Synced+span*i/7] = true
		}
		for _, b := range []int64{1, 6, 7, 8} {
			cand[prim.Synced+b] = true
			cand[prim.Logical-b] = true
		}
	}
	// every block boundary inside the tail: a multi-block record cut exactly between two of its chunks
	must := map[int64]bool{}
	for b := (prim.Synced/kvh.BlockSize + 1) * kvh.BlockSize; b < prim.Logical; b += kvh.BlockSize {
		cand[b] = true
		must[b] = true
	}
	var cs []int64
	for c := range cand {
		if c >= prim.Synced && c <= prim.Logical {
			cs = append(cs, c)
		}
	}
	sort.Slice(cs, func(i, j int) bool { return cs[i] < cs[j] })
	if x.c.MaxCuts > 0 && len(cs) > x.c.MaxCuts {
		// deterministic thinning that keeps both ends
		keep := []int64{cs[0]}
		step := float64(len(cs)-1) / float64(x.c.MaxCuts-1)
		for i := 1; i < x.c.MaxCuts-1; i++ {
			keep = append(keep, cs[int(float64(i)*step+float64(inst.Event.Seq%3)*0.3)%len(cs)])
		}
		keep = append(keep, cs[len(cs)-1])
		for b := range must {
			keep = append(keep, b)
		}
		sort.Slice(keep, func(i, j int) bool { return keep[i] < keep[j] })
		cs = keep[:0]
		for i, c := range keep {
			if i == 0 || c != keep[i-1] {
				cs = append(cs, c)
			}
		}
	}
	var out []map[string]int64
	// the other unsynced files (e.g. a hint file, a rewritten file of a merge) get a few interior cuts of their own,
	// with everything else surviving completely
	for _, o := range uns[1:] {
		seen := map[int64]bool{}
		for _, c := range []int64{o.Synced + 1, (o.Synced + o.Logical) / 2, (o.Synced+o.Logical)/2 + 1, o.Logical - 3, o.Logical - 1} {
			if c <= o.Synced || c >= o.Logical || seen[c] {
				continue
			}
			seen[c] = true
			out = append(out, map[string]int64{o.Rel: c})
		}
	}
	if x.c.MaxCuts > 0 && len(out) > x.c.MaxCuts {
		out = out[:x.c.MaxCuts]
	}
	for i, c := range cs {
		v := map[string]int64{prim.Rel: c}
		// the other unsynced files alternate between "nothing unsynced survived" and "everything survived"
		for _, o := range uns[1:] {
			if i%2 == 0 {
				v[o.Rel] = o.Synced
			} else {
				v[o.Rel] = o.Logical
			}
		}
		out = append(out, v)
	}
	return out
}

// verify expands one instant into images and checks the prefix oracle.
func (x *crashExec) verify(inst *kvh.Instant, upper int) {
	defer inst.Drop()
	if x.fail != nil {
		return
	}
	x.cs.instants++
	type variant struct {
		cuts  map[string]int64
		lower int
		kind  string
	}
	var vs []variant
	if x.c.Only == nil || len(x.c.Only.Cuts) == 0 {
		vs = append(vs, variant{nil, inst.Acked, "process-crash"})
	}
	for _, cv := range x.cutVectors(inst) {
		vs = append(vs, variant{cv, inst.Durable, "power-loss"})
	}
	reader := x.c.Opt
	if x.c.Reader != nil && inst.Event.Seq%3 == 0 {
		reader = *x.c.Reader
		reader.IO = x.c.Opt.IO
	}
	for vi, v := range vs {
		img := filepath.Join(x.imgRoot, "img")
		_ = os.RemoveAll(img)
		if err := inst.Materialise(img, v.cuts, x.materialiseKeepPhysical); err != nil {
			x.fail = &kvh.Fail{Sig: "harness-materialise", Msg: err.Error()}
			return
		}
		x.cs.images++
		spec := &kvh.CrashSpec{Event: inst.Event.Seq, Cuts: v.cuts}
		where := fmt.Sprintf("%s image at event %d (before %s %s n=%d, during op %d %s, in flight %v, acknowledged %d, durable %d, cuts %v)",
			v.kind, inst.Event.Seq, inst.Event.Kind, relTo(x.r.Base, inst.Event.Path), inst.Event.N, inst.OpIndex, inst.OpKind, inst.InFlight, inst.Acked, inst.Durable, v.cuts)
		var nested []*kvh.Instant
		var db, dump, f = x.openArmed(img, reader, 1, &nested)
		if f != nil {
			f.Msg = where + ": " + f.Msg
			x.fail, x.failSpec = f, spec
			dropAll(nested)
			return
		}
		d := kvh.StateDigest(dump)
		if len(nested) > 0 {
			// crash during this recovery/adoption: every such image must recover to the same mapping
			if f, path := x.verifyNested(nested, reader, d, dump, 1, where); f != nil {
				_ = db.Close()
				x.fail = f
				x.failSpec = &kvh.CrashSpec{Event: inst.Event.Seq, Cuts: v.cuts, Level: path}
				return
			}
		}
		match := -1
		for j := v.lower; j <= upper && j < len(x.states); j++ {
			if x.states[j] == d {
				match = j
				break
			}
		}
		if match < 0 {
			_ = db.Close()
			any := -1
			for j := range x.states {
				if x.states[j] == d {
					any = j
				}
			}
			msg := fmt.Sprintf("%s: the recovered mapping %s equals none of the admissible prefixes S_%d..S_%d", where, kvh.DescribeDump(dump), v.lower, upper)
			sig := "recovered-state-not-a-prefix"
			if any >= 0 && any < v.lower {
				sig = "acknowledged-durable-mutation-lost"
				msg += fmt.Sprintf(" (it equals S_%d: mutations %d..%d were acknowledged and durable but are missing)", any, any+1, v.lower)
			} else if any > upper {
				sig = "recovered-state-from-the-future"
			}
			for j := v.lower; j <= upper && j < len(x.stateDesc); j++ {
				msg += fmt.Sprintf("\n  S_%d = %s", j, x.stateDesc[j])
			}
			x.fail, x.failSpec = &kvh.Fail{Sig: sig, Msg: msg}, spec
			return
		}
		if x.onVerify != nil {
			if f := x.onVerify(x, inst, v.cuts, dump, match); f != nil {
				_ = db.Close()
				f.Msg = where + ": " + f.Msg
				x.fail, x.failSpec = f, spec
				return
			}
		}
		// continuation: the recovered database accepts a write, and the next restart shows the
		// recovered mapping plus that write (an interrupted tail must not poison later appends)
		continued := false
		tornSecond := false
		atBlock := false
		for _, c := range v.cuts {
			if c > 0 && c%kvh.BlockSize == 0 {
				atBlock = true
			}
		}
		if atBlock || (inst.Event.Seq+vi)%3 == 1 || x.c.Only != nil || (inst.InFlight && inst.OpKind == "batch" && (inst.Event.Seq+vi)%2 == 0) {
			continued = true
			cv := kvh.GenValue(uint64(inst.Event.Seq)+900, 9)
			if err := db.Put([]byte("~continuation"), cv); err != nil {
				_ = db.Close()
				x.fail, x.failSpec = &kvh.Fail{Sig: "write-after-recovery-fails", Msg: where + ": Put on the recovered database: " + err.Error()}, spec
				return
			}
			dump["~continuation"] = cv
			if inst.InFlight && inst.OpKind == "batch" {
				// the image may hold records of the interrupted batch: a LATER committed batch must not adopt them.
				// Batch ids are time based; wait so that the new id cannot equal the interrupted batch's id.
				time.Sleep(2 * time.Millisecond)
				bv := kvh.GenValue(uint64(inst.Event.Seq)+901, 7)
				if err := commitOne(db, []byte("~continuation-batch"), bv); err != nil {
					_ = db.Close()
					x.fail, x.failSpec = &kvh.Fail{Sig: "write-after-recovery-fails", Msg: where + ": batch on the recovered database: " + err.Error()}, spec
					return
				}
				dump["~continuation-batch"] = bv
				x.cs.labels["batch-commit-and-restart-after-crash-inside-batch"]++
			}
			if (inst.InFlight && inst.OpKind == "merge") || (inst.Event.Seq+vi)%5 == 0 {
				// later history on the recovered directory: delete a live key, run a complete Merge; the restart
				// below adopts it. What an interrupted merge left behind must not leak into the new one.
				var ks []string
				for k := range dump {
					if !strings.HasPrefix(k, "~continuation") {
						ks = append(ks, k)
					}
				}
				sort.Strings(ks)
				if len(ks) > 0 {
					victim := ks[(inst.Event.Seq+vi)%len(ks)]
					if err := db.Delete([]byte(victim)); err != nil {
						_ = db.Close()
						x.fail, x.failSpec = &kvh.Fail{Sig: "write-after-recovery-fails", Msg: where + ": Delete on the recovered database: " + err.Error()}, spec
						return
					}
					delete(dump, victim)
				}
				if err := db.Merge(); err != nil && !errors.Is(err, kv.ErrMergeFileIDConflict) && !errors.Is(err, kv.ErrMergeRatioUnreached) {
					_ = db.Close()
					x.fail, x.failSpec = &kvh.Fail{Sig: "merge-after-recovery-fails", Msg: where + ": Merge on the recovered database: " + err.Error()}, spec
					return
				}
				x.cs.labels["delete-merge-and-restart-after-recovery"]++
			}
			d = kvh.StateDigest(dump)
			x.cs.labels["write-and-restart-after-recovery"]++
			if inst.InFlight && inst.OpKind == "batch" {
				// a SECOND failure, of the other kind: one more Put is appended and torn by a power loss (the file is cut
				// inside that record after Close). What was written between the two failures lies before the torn record
				// and - in the history this image stands for - was flushed: it must all be there after the next Open,
				// whatever the first failure left in front of it (records of the interrupted batch, never sealed)
				if err := db.Put([]byte("~torn-by-the-second-failure"), kvh.GenValue(uint64(inst.Event.Seq)+902, 11)); err != nil {
					_ = db.Close()
					x.fail, x.failSpec = &kvh.Fail{Sig: "write-after-recovery-fails", Msg: where + ": Put on the recovered database: " + err.Error()}, spec
					return
				}
				tornSecond = true
			}
		}
		if err := db.Close(); err != nil {
			x.fail, x.failSpec = &kvh.Fail{Sig: "recovered-close-error", Msg: where + ": " + err.Error()}, spec
			return
		}
		if tornSecond {
			newest := ""
			ents, _ := os.ReadDir(filepath.Join(img, "db"))
			for _, en := range ents {
				if strings.HasSuffix(en.Name(), ".data") && en.Name() > newest {
					newest = en.Name()
				}
			}
			if p := filepath.Join(img, "db", newest); newest != "" {
				if fi, err := os.Stat(p); err == nil && fi.Size() > 3 {
					_ = os.Truncate(p, fi.Size()-3)
					gIO.Forget(img)
					x.cs.labels["second-failure-tears-the-last-record-after-a-crash-inside-a-batch"]++
				}
			}
		}
		// idempotence: a second Open of the recovered directory shows the same mapping
		if continued || (inst.Event.Seq+vi)%4 == 0 {
			db2, dump2, f := kvh.OpenImage(img, reader)
			if f != nil {
				f.Sig = "second-" + f.Sig
				f.Msg = where + ": second Open after recovery: " + f.Msg
				x.fail, x.failSpec = f, spec
				return
			}
			_ = db2.Close()
			if kvh.StateDigest(dump2) != d {
				x.fail, x.failSpec = &kvh.Fail{Sig: "recovery-not-idempotent", Msg: where + fmt.Sprintf(": first Open (plus continuation write: %v) showed %s, the next Open shows %s", continued, kvh.DescribeDump(dump), kvh.DescribeDump(dump2))}, spec
				return
			}
			x.cs.labels["second-open-after-recovery"]++
		}
		gIO.Forget(img)
		// classification (measured)
		nontrivial := false
		if x.nonTrivial != nil {
			nontrivial = x.nonTrivial(x, inst, v.cuts)
		} else if inst.Acked >= 1 && (inst.InFlight || cutLost(inst, v.cuts)) {
			nontrivial = true
		}
		x.cs.labels["image-"+v.kind]++
		if inst.InFlight {
			x.cs.labels["crash-inside-"+inst.OpKind]++
		}
		if v.cuts != nil && cutLost(inst, v.cuts) {
			x.cs.labels["unsynced-bytes-cut"]++
		}
		if match < upper {
			x.cs.labels["recovered-an-earlier-prefix"]++
		}
		x.cs.labels["strategy-sync"+fmt.Sprint(x.c.Opt.Sync)]++
		if nontrivial {
			x.cs.nontrivial++
			x.cs.hashes = append(x.cs.hashes, kvh.Hash64([]byte(fmt.Sprintf("%d|%d|%v", x.caseHash(), inst.Event.Seq, v.cuts))))
			if x.cs.sample == nil {
				x.cs.sample = map[string]any{"image": where, "recovered": kvh.DescribeDump(dump), "matched_prefix": match}
			}
		}
	}
}

func cutLost(inst *kvh.Instant, cuts map[string]int64) bool {
	for _, f := range inst.Files {
		if c, ok := cuts[f.Rel]; ok && c < f.Logical {
			return true
		}
	}
	return false
}

func relTo(base, p string) string {
	if r, err := filepath.Rel(base, p); err == nil {
		return r
	}
	return p
}

func (x *crashExec) caseHash() uint64 {
	return x.r.CaseHash(x.c.Opt)
}

// afterOp is called when an operation has returned: account the mutation and
// verify the instants frozen during it.
func (x *crashExec) afterOp(mutated bool) {
	x.inflight = false
	if mutated {
		x.acked++
		x.states = append(x.states, kvh.StateDigest(x.r.Model))
		x.stateDesc = append(x.stateDesc, kvh.DescribeDump(x.r.Model))
		x.extents = append(x.extents, x.cur)
	}
	x.cur = nil
	// the state right after the return is a crash instant of its own
	x.eventN++
	if x.selected(x.eventN) {
		x.freeze(kvh.Event{Kind: "return", Path: x.r.Dir})
	}
	pend := x.pending
	x.pending = nil
	for _, inst := range pend {
		upper := inst.Acked
		if inst.InFlight && mutated {
			upper++
		}
		x.verify(inst, upper)
	}
}

// newCrashExec opens a fresh database and arms the crash enumeration.
func newCrashExec(c *crashCase, st *kvh.Stats, setup func(x *crashExec)) (*crashExec, *kvh.Fail) {
	cs := &crashStats{labels: map[string]int{}}
	r, f := kvh.NewRunner(c.Property, c.Opt, gIO)
	if f != nil {
		return nil, f
	}
	r.NoHuge = true // the bytes of every file at every frozen instant are kept in memory
	x := &crashExec{c: c, r: r, st: st, cs: cs, nestedDepth: 1}
	if !kvh.GetEnv().Thorough() {
		x.nestedMax = 2
	}
	x.imgRoot = filepath.Join(r.Base, "images")
	_ = os.MkdirAll(x.imgRoot, 0o755)
	x.states = []uint64{kvh.StateDigest(r.Model)}
	x.stateDesc = []string{"{}"}
	if setup != nil {
		setup(x)
	}
	gIO.OnEvent = x.onEvent
	kvh.SetInFlight(&kvh.InFlight{Property: c.Property, Case: func() any { return c }})
	return x, nil
}

func (x *crashExec) close() {
	gIO.OnEvent = nil
	kvh.SetInFlight(nil)
	for _, p := range x.pending {
		p.Drop()
	}
	x.r.Cleanup()
}

// step executes one op with crash enumeration. record=true appends it to the case.
func (x *crashExec) step(op kvh.Op, record bool) (*kvh.Fail, *kvh.CrashSpec) {
	if record {
		x.c.Ops = append(x.c.Ops, op)
	}
	x.opIndex, x.opKind = len(x.r.Ops), op.K
	x.inflight = true
	x.opWrites = 0
	muts := x.r.F.Muts
	if f := x.r.Step(op); f != nil {
		return f, nil
	}
	if op.K == "reopen" {
		// everything acknowledged so far went through a clean Close
		x.floor = x.acked
	}
	x.afterOp(x.r.F.Muts > muts)
	if x.fail == nil && x.afterStep != nil {
		if f := x.afterStep(x, &op, x.r.F.Muts > muts); f != nil {
			return f, nil
		}
	}
	if x.fail != nil {
		return x.fail, x.failSpec
	}
	return nil, nil
}

// replayCrashCase re-executes a saved crash case (all its images, or only the pinned one).
func replayCrashCase(c *crashCase, setup func(x *crashExec)) *kvh.Fail {
	if f := replayCrashCaseOnce(c, setup); f != nil || c.Only == nil {
		return f
	}
	// Merge iterates the rotated files in Go map order, so the numbering of the events inside a merge can differ
	// between executions and the pinned image may not be the one that failed: enumerate all images of the workload.
	all := *c
	all.Only = nil
	all.SelPct = 100
	for i := 0; i < 3; i++ {
		if f := replayCrashCaseOnce(&all, setup); f != nil {
			return f
		}
	}
	return nil
}

func replayCrashCaseOnce(c *crashCase, setup func(x *crashExec)) *kvh.Fail {
	ops := c.Ops
	cc := *c
	cc.Ops = nil
	x, f := newCrashExec(&cc, kvh.StatsFor(c.Property), setup)
	if f != nil {
		return f
	}
	defer x.close()
	for _, op := range ops {
		if f, _ := x.step(op, true); f != nil {
			return f
		}
	}
	return nil
}

// pinned returns a copy of the case pinned to the failing image.
func (c *crashCase) pinned(spec *kvh.CrashSpec) *crashCase {
	cc := *c
	cc.Only = spec
	return &cc
}

// flush moves the per-case crash statistics into the property statistics.
func (x *crashExec) flushStats(nonTrivialWorkload bool) {
	st := x.st
	st.Eval(int64(x.cs.images))
	st.ExtraAdd("workloads", 1)
	st.ExtraAdd("crash_instants", int64(x.cs.instants))
	st.ExtraAdd("images_opened", int64(x.cs.images))
	st.ExtraAdd("images_of_crashes_during_recovery", int64(x.cs.nested))
	for k, n := range x.cs.labels {
		st.LabelN(k, int64(n))
	}
	for _, h := range x.cs.hashes {
		st.NonTrivial(h)
	}
	if x.cs.sample != nil {
		if st.WantSample() {
			s := x.cs.sample
			s["workload"] = kvh.Abbrev(x.c.Opt, x.c.Ops)
			st.Sample(s)
		} else {
			st.Sample(nil)
		}
	}
}

func dropAll(insts []*kvh.Instant) {
	for _, i := range insts {
		i.Drop()
	}
}

// openArmed opens an image with the hooks armed so that the state-changing
// operations of this very Open (merge adoption: remove/rename/remove-all; file
// creation; truncation of an incomplete tail) become crash instants of the
// next level.
func (x *crashExec) openArmed(img string, reader kvh.Opt, level int, out *[]*kvh.Instant) (dbOut dbHandle, dump map[string][]byte, fail *kvh.Fail) {
	if level > x.nestedDepth {
		db, dump, f := kvh.OpenImage(img, reader)
		return db, dump, f
	}
	prev := gIO.OnEvent
	n := 0
	gIO.OnEvent = func(ev kvh.Event) {
		if !strings.HasPrefix(ev.Path, img+"/") {
			return
		}
		n++
		interesting := false
		switch ev.Kind {
		case "truncate":
			interesting = true
		case "remove", "rename", "removeall", "mkdir":
			interesting = x.nestedCreates // directory operations of merge adoption are C07's domain
		case "open":
			if _, err := os.Stat(ev.Path); err != nil && x.nestedCreates {
				interesting = true // creates the file
			}
		}
		if !interesting {
			return
		}
		if x.c.Only != nil {
			if len(x.c.Only.Level) < level || x.c.Only.Level[level-1] != n {
				return
			}
		} else if level >= 2 && x.nestedMax > 0 && len(*out) >= x.nestedMax {
			return // quick tier: the retry level is sampled
		}
		x.uniq++
		inst, err := kvh.CaptureInstant(gIO, img, x.imgRoot, 100000+x.uniq)
		if err != nil {
			return
		}
		inst.Event = ev
		inst.Event.Seq = n
		*out = append(*out, inst)
	}
	db, dump, f := kvh.OpenImage(img, reader)
	gIO.OnEvent = prev
	return db, dump, f
}

type dbHandle = interface {
	Close() error
	Put(key, value []byte) error
	Delete(key []byte) error
	Merge() error
}

// commitOne commits a one-record batch on a recovered database.
func commitOne(db dbHandle, key, val []byte) error {
	real, ok := db.(*kv.DB)
	if !ok {
		return nil
	}
	b := real.NewBatch(kv.BatchOptions{})
	if err := b.Put(key, val); err != nil {
		_ = b.Commit()
		return err
	}
	return b.Commit()
}

// verifyNested checks the images of crashes during a recovery Open.
func (x *crashExec) verifyNested(insts []*kvh.Instant, reader kvh.Opt, want uint64, wantDump map[string][]byte, level int, where string) (*kvh.Fail, []int) {
	defer dropAll(insts)
	for _, inst := range insts {
		img := filepath.Join(x.imgRoot, fmt.Sprintf("img-l%d", level+1))
		_ = os.RemoveAll(img)
		if err := inst.Materialise(img, nil, false); err != nil {
			return &kvh.Fail{Sig: "harness-materialise", Msg: err.Error()}, nil
		}
		x.cs.images++
		w := fmt.Sprintf("%s -> level %d: crash during that Open before %s %s", where, level+1, inst.Event.Kind, relTo(filepath.Dir(img), inst.Event.Path))
		var deeper []*kvh.Instant
		db, dump, f := x.openArmed(img, reader, level+1, &deeper)
		if f != nil {
			dropAll(deeper)
			f.Msg = w + ": " + f.Msg
			return f, []int{inst.Event.Seq}
		}
		if kvh.StateDigest(dump) != want {
			_ = db.Close()
			dropAll(deeper)
			return &kvh.Fail{Sig: "crash-during-recovery-changes-state", Msg: fmt.Sprintf("%s: recovered %s, the uninterrupted recovery of the same image gave %s", w, kvh.DescribeDump(dump), kvh.DescribeDump(wantDump))}, []int{inst.Event.Seq}
		}
		if len(deeper) > 0 {
			if f, path := x.verifyNested(deeper, reader, want, wantDump, level+1, w); f != nil {
				_ = db.Close()
				return f, append([]int{inst.Event.Seq}, path...)
			}
		}
		if err := db.Close(); err != nil {
			return &kvh.Fail{Sig: "recovered-close-error", Msg: w + ": " + err.Error()}, []int{inst.Event.Seq}
		}
		// and once more: re-running the (now completed) recovery is harmless
		db2, dump2, f := kvh.OpenImage(img, reader)
		if f != nil {
			f.Sig = "second-" + f.Sig
			f.Msg = w + ": second Open: " + f.Msg
			return f, []int{inst.Event.Seq}
		}
		_ = db2.Close()
		if kvh.StateDigest(dump2) != want {
			return &kvh.Fail{Sig: "recovery-not-idempotent", Msg: fmt.Sprintf("%s: the second Open shows %s, want %s", w, kvh.DescribeDump(dump2), kvh.DescribeDump(wantDump))}, []int{inst.Event.Seq}
		}
		gIO.Forget(img)
		x.cs.labels[fmt.Sprintf("level-%d-image-before-%s", level+1, inst.Event.Kind)]++
		x.cs.nested++
		x.cs.hashes = append(x.cs.hashes, kvh.Hash64([]byte(fmt.Sprintf("%d|nested|%s|%d|%d", x.caseHash(), where, level, inst.Event.Seq))))
	}
	return nil, nil
}
