package harness

import (
	"fmt"
	"os"
	"testing"

	"github.com/XiXi-2024/xixi-kv/datafile"
	"github.com/XiXi-2024/xixi-kv/fio"
	"verifharness/kvh"
)

// C11, far offsets: block numbers are 32-bit, file offsets 64-bit. Records
// appended to a file that is already 2, 4 or 8 GiB long (a sparse hole on
// tmpfs stands for the earlier records; DataFileSize is an int64 without an
// upper bound) must be positioned, sized and read back by position exactly as
// near the start of a file. A second group of records - same lengths, other
// contents - is first written at the offset that aliases the far one modulo
// 4 GiB, so that a 32-bit product does not end in a checksum error but in the
// wrong record.

type c11Far struct {
	Property string `json:"property"`
	Kind     string `json:"kind"`
	Base     int64  `json:"base"` // length of the file before the records are appended
	IO       byte   `json:"io"`
}

var c11FarLens = []int{1, 40, 300, 32761 - 7 - 4, 5, 70000, 9, 33000, 12}

func c11FarCheck(dir string, id uint32, c *c11Far, st *kvh.Stats) *kvh.Fail {
	path := datafile.GetFileName(dir, id, datafile.DataFileSuffix)
	defer os.Remove(path)
	header := make([]byte, datafile.MaxLogRecordHeaderSize)
	write := func(df *datafile.DataFile, seedBase uint64) (recs []*datafile.LogRecord, poss []*datafile.DataPos, f *kvh.Fail) {
		for i, vl := range c11FarLens {
			rec := &datafile.LogRecord{Type: datafile.LogRecordNormal, Key: []byte(fmt.Sprintf("k%d", i)), Value: kvh.GenValue(seedBase+uint64(i), vl)}
			off := df.Size()
			pos, err := df.WriteLogRecord(rec, header)
			if err != nil {
				return nil, nil, &kvh.Fail{Sig: "write-error", Msg: fmt.Sprintf("base %d io %d: %v", c.Base, c.IO, err)}
			}
			start, end, size, _ := kvh.FrameLayout(off, kvh.EncLen(len(rec.Key), vl, 0))
			if got := int64(pos.BlockID)*kvh.BlockSize + int64(pos.Offset); got != start || int64(pos.Size) != size {
				return nil, nil, &kvh.Fail{Sig: "frame-position", Msg: fmt.Sprintf("base %d io %d record %d appended at %d: reported block %d offset %d size %d, the format says start %d size %d", c.Base, c.IO, i, off, pos.BlockID, pos.Offset, pos.Size, start, size)}
			}
			if df.Size() != end {
				return nil, nil, &kvh.Fail{Sig: "frame-logical-size", Msg: fmt.Sprintf("base %d io %d record %d: Size() = %d, the format says %d", c.Base, c.IO, i, df.Size(), end)}
			}
			recs, poss = append(recs, rec), append(poss, pos)
		}
		return recs, poss, nil
	}
	// decoys at the aliased offset (base mod 4 GiB), when that is a different place
	if alias := c.Base % (1 << 32); alias != c.Base {
		if err := os.WriteFile(path, nil, 0o644); err != nil {
			return &kvh.Fail{Sig: "harness", Msg: err.Error()}
		}
		if err := os.Truncate(path, alias); err != nil {
			return &kvh.Fail{Sig: "harness", Msg: err.Error()}
		}
		df, err := datafile.OpenFile(dir, id, datafile.DataFileSuffix, fio.StandardFIO)
		if err != nil {
			return &kvh.Fail{Sig: "open-error", Msg: err.Error()}
		}
		_, _, f := write(df, 777000)
		_ = df.Close()
		if f != nil {
			return f
		}
	} else if err := os.WriteFile(path, nil, 0o644); err != nil {
		return &kvh.Fail{Sig: "harness", Msg: err.Error()}
	}
	if err := os.Truncate(path, c.Base); err != nil {
		return &kvh.Fail{Sig: "harness", Msg: err.Error()}
	}
	df, err := datafile.OpenFile(dir, id, datafile.DataFileSuffix, fio.FileIOType(c.IO))
	if err != nil {
		return &kvh.Fail{Sig: "open-error", Msg: fmt.Sprintf("base %d io %d: %v", c.Base, c.IO, err)}
	}
	defer df.Close()
	if df.Size() != c.Base {
		return &kvh.Fail{Sig: "frame-logical-size", Msg: fmt.Sprintf("a file of %d bytes opens with Size() = %d", c.Base, df.Size())}
	}
	recs, poss, f := write(df, uint64(c.Base>>15)+5)
	if f != nil {
		return f
	}
	for i := range recs {
		val, err := df.ReadRecordValue(poss[i])
		if err != nil {
			return &kvh.Fail{Sig: "frame-random-read-error", Msg: fmt.Sprintf("base %d io %d record %d at block %d offset %d: ReadRecordValue: %v", c.Base, c.IO, i, poss[i].BlockID, poss[i].Offset, err)}
		}
		if !sameB(val, recs[i].Value) {
			return &kvh.Fail{Sig: "frame-random-read-mismatch", Msg: fmt.Sprintf("base %d io %d record %d at block %d offset %d: ReadRecordValue returned %s, want %s", c.Base, c.IO, i, poss[i].BlockID, poss[i].Offset, kvh.ValueDigest(val), kvh.ValueDigest(recs[i].Value))}
		}
		st.Eval(1)
		st.NonTrivial(kvh.Hash64([]byte(fmt.Sprintf("far|%d|%d|%d", c.Base, c.IO, i))))
	}
	st.Label("far-offset-file")
	return nil
}

func c11FarOffsets(t *testing.T, st *kvh.Stats) {
	e := kvh.GetEnv()
	dir := e.NewDir("c11far")
	defer os.RemoveAll(dir)
	var bases []int64
	for _, g := range []int64{1 << 31, 1 << 32, 1 << 33} {
		for _, d := range []int64{-40000, -5, 0, 20000} {
			bases = append(bases, g+d)
		}
	}
	n := 0
	for _, io8 := range []byte{0, 1} {
		for _, b := range bases {
			n++
			if !e.Mine(n) {
				continue
			}
			c := &c11Far{Property: "C11", Kind: "c11far", Base: b, IO: io8}
			if f := c11FarCheck(dir, uint32(n), c, st); f != nil {
				report(t, st, c, f)
			}
		}
	}
}

func init() {
	replayers["c11far"] = func(_ *kvh.Case, raw []byte) *kvh.Fail {
		var c c11Far
		if err := jsonUnmarshal(raw, &c); err != nil {
			return &kvh.Fail{Sig: "harness-bad-case", Msg: err.Error()}
		}
		e := kvh.GetEnv()
		dir := e.NewDir("c11far")
		defer os.RemoveAll(dir)
		return c11FarCheck(dir, 1, &c, kvh.StatsFor("C11"))
	}
}
