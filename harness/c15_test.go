package harness

import (
	"testing"

	"pgregory.net/rapid"
	"verifharness/kvh"
)

// C15 — caller buffers are never retained or modified; slices returned by Get
// never change. The harness passes ONE key buffer and ONE value buffer to
// every call (alternating buf[:n] and buf[:n:n]) and scribbles over both right
// after each return.

var c15Profile = &kvh.GenProfile{
	Weights: map[string]int{
		"put": 40, "del": 12, "get": 12, "batch": 22, "merge": 2, "reopen": 3, "listkeys": 2, "fold": 2, "sync": 1, "tear": 2,
	},
	MaxBatchOps: 8,
	Big:         true,
	BatchGets:   15,
	OptProfile:  kvh.OptProfile{MMapPercent: 10},
}

const c15Rule = "C01/C05 histories in which every key and value is handed to the engine in one shared key buffer and one shared value buffer that the caller overwrites with a poison pattern immediately after each return; oracle: (i) the visible state still equals the reference map at every step, (ii) both backing arrays always hold exactly what the caller wrote (the engine never writes into caller memory), (iii) every slice returned earlier by DB.Get still equals its private copy; non-trivial = >= 2 mutations through the reused buffers (the second reuse overwrites what the first stored); distinct = hash of (options, ops)"

func init() {
	historySetups["C15"] = func(r *kvh.Runner) { r.Poison = kvh.NewPoisonBufs() }
}

func TestC15(t *testing.T) {
	st := kvh.StatsFor("C15")
	st.SetRule(c15Rule,
		"privacy of slices returned by Batch.Get is not asserted (the statement names Get)",
		"the last 24 slices returned by Get are retained and re-compared after every step")
	defer finishProperty(st)
	checkCases(t, st, func(t *rapid.T) {
		runHistoryCase(t, "C15", c15Profile, func(r *kvh.Runner) bool { return r.F.Muts >= 2 && r.Poison != nil && r.Poison.Reuses >= 3 })
	})
}
