package harness

import (
	"testing"

	"pgregory.net/rapid"
	"verifharness/kvh"
)

// C03 — crash recovery exposes a prefix of the acknowledged history.

var c03Profile = &kvh.GenProfile{
	Weights: map[string]int{
		"put": 50, "del": 12, "batch": 16, "sync": 6, "merge": 3, "wipe": 2, "get": 1, "reopen": 3,
	},
	MaxBatchOps: 5,
	Big:         true,
	ReopenSame:  true,
	OptProfile:  kvh.OptProfile{NoMMap: true, FileSizes: []int64{200, 1000, 4096, 40000, 1 << 20, 1 << 20}},
}

const c03Rule = "workloads (Put/Delete/batches/Sync/rotation-forcing sizes/occasional Merge) x options (all sync strategies, standard I/O; MMap see known finding) x crash instant = every intercepted I/O or directory operation of the run and every API return (thorough; a generated ~35 % subset in quick) x {process crash; power loss: each unsynced tail cut at both ends, every record boundary, boundary +-1, interior points, every byte length when the tail is <= 64 B}; oracle: the image opens with the real Open without error or panic and its dump equals the model state S_j after some prefix of the acknowledged mutations with L <= j <= a+f (a acknowledged, f = 1 if a mutation was in flight, L = leading mutations fully below the synced lengths; L = a for a process crash); non-trivial = image taken after >= 1 acknowledged mutation and either inside an operation or with >= 1 unsynced byte cut; distinct = hash of (case, event, cut vector)"

func TestC03(t *testing.T) {
	st := kvh.StatsFor("C03")
	st.SetRule(c03Rule,
		"crashes happen between I/O calls: a single write call is atomic with respect to a process crash",
		"power loss loses a suffix of each file's unsynced region (no page reordering); directory operations (create, rename, unlink) are durable in program order",
		"a batch is one mutation, so an image showing part of a batch matches no prefix",
		"evaluations counts opened images; workloads and instants are reported separately")
	defer finishProperty(st)
	t.Run("mmap-probe", func(t *testing.T) { c03MMapProbe(t, st) })
	t.Run("merge-race-probe", func(t *testing.T) { c03MergeRaceProbe(t, st) })
	t.Run("random", func(t *testing.T) {
		checkCases(t, st, func(t *rapid.T) { c03Run(t, st, "C03", c03Profile, nil) })
	})
}

func c03Run(t *rapid.T, st *kvh.Stats, property string, prof *kvh.GenProfile, setup func(x *crashExec)) {
	e := kvh.GetEnv()
	c := &crashCase{Property: property, Kind: "crash"}
	c.Opt = kvh.GenOpt(t, "opt", prof.OptProfile)
	c.SelSeed = uint64(kvh.U(t, 1<<16, "selseed"))
	if e.Thorough() {
		c.SelPct = 100
		c.MaxCuts = 0
	} else {
		c.SelPct = kvh.Pick(t, []int{25, 35, 50}, "selpct")
		c.MaxCuts = 10
	}
	ro := kvh.GenOpt(t, "reader", kvh.OptProfile{NoMMap: true})
	c.Reader = &ro
	x, f := newCrashExec(c, st, setup)
	if f != nil {
		report(t, st, c, f)
	}
	defer x.close()
	pool := kvh.GenKeyPool(t, false)
	t.Repeat(map[string]func(*rapid.T){
		"op": func(t *rapid.T) {
			op := kvh.GenOp(t, x.r, pool, prof)
			if f, spec := x.step(op, true); f != nil {
				report(t, st, c.pinned(spec), f)
			}
		},
	})
	x.flushStats(true)
}

// c03MMapProbe demonstrates the listed finding: after a process crash an MMap
// data file keeps its 512 MiB extension and the next Open fails.
func c03MMapProbe(t *testing.T, st *kvh.Stats) {
	if !kvh.GetEnv().Mine(0) {
		return
	}
	opt := kvh.DefaultOpt()
	opt.IO = 1
	c := &crashCase{Property: "C03", Kind: "crash", Opt: opt, SelPct: 100, Note: "mmap probe"}
	x, f := newCrashExec(c, st, nil)
	if f != nil {
		report(t, st, c, f)
	}
	defer x.close()
	x.materialiseKeepPhysical = true
	for _, op := range []kvh.Op{
		{K: "put", Key: []byte("a"), VLen: 10, VSeed: 1},
		{K: "sync"},
		{K: "put", Key: []byte("b"), VLen: 10, VSeed: 2},
	} {
		if f, _ := x.step(op, true); f != nil {
			if f.Sig == "recovery-open-error" || f.Sig == "recovery-panic" {
				st.Known("mmap-crash-image-open", f.Msg)
				st.Exclude("mmap-crash-images", 1)
				return
			}
			report(t, st, c, f)
		}
	}
	st.Label("mmap-crash-images-open")
}

func init() {
	replayers["crash"] = func(_ *kvh.Case, raw []byte) *kvh.Fail {
		var c crashCase
		if err := jsonUnmarshal(raw, &c); err != nil {
			return &kvh.Fail{Sig: "harness-bad-case", Msg: err.Error()}
		}
		return replayCrashCase(&c, crashSetups[c.Property])
	}
}

var crashSetups = map[string]func(x *crashExec){}
