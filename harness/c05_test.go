package harness

import (
	"encoding/json"
	"fmt"
	"os"
	"os/exec"
	"strings"
	"testing"

	kv "github.com/XiXi-2024/xixi-kv"
	"pgregory.net/rapid"
	"verifharness/kvh"
)

// C05 — batch staging: read-your-writes, in-order application, a committed
// batch rejects further use.

var c05Profile = &kvh.GenProfile{
	Weights: map[string]int{
		"put": 34, "del": 8, "get": 2, "batch": 46, "merge": 2, "reopen": 4, "listkeys": 1, "emptykey": 1,
	},
	MaxBatchOps: 25,
	Big:         true,
	BatchGets:   38,
	PostCommit:  true,
	OptProfile:  kvh.OptProfile{FileSizes: []int64{64, 200, 1000, 4096, 4096, 40000, 1 << 20}, MMapPercent: 15},
}

const c05Rule = "histories that place live values in the active and in rotated files (small DataFileSize), then batches of 1..25 Put/Delete/Get over few keys with deliberate repeats and sizes that overflow DataFileSize mid-batch, then Commit and calls on the committed batch; oracle = layered reference map (staged overlay over the database map) for every Batch.Get, in-order application for the state after Commit, ErrBatchCommitted afterwards; second Commit executed in a child process; non-trivial = a batch with a repeated key or a Batch.Get that falls through to a record in a rotated file; distinct = hash of (options, concrete ops)"

func c05NonTrivial(r *kvh.Runner) bool { return r.F.BatchRepeat > 0 || r.F.BGetRotated > 0 }

func TestC05(t *testing.T) {
	st := kvh.StatsFor("C05")
	st.SetRule(c05Rule,
		"slices returned by Batch.Get are compared at return time only (their later privacy is not claimed)",
		"the goroutine that holds a batch makes no other database call until Commit (API precondition)",
		"a second Commit is run in a re-executed child process so that a runtime fatal error is observed as that child's exit")
	defer finishProperty(st)
	t.Run("commit-twice", func(t *testing.T) { commitTwice(t, st) })
	t.Run("shared-handle", func(t *testing.T) { c05SharedBatch(t, st) })
	t.Run("random", func(t *testing.T) {
		checkCases(t, st, func(t *rapid.T) {
			runHistoryCase(t, "C05", c05Profile, c05NonTrivial)
		})
	})
}

type commit2Arg struct {
	Dir      string `json:"dir"`
	NOps     int    `json:"nops"`
	Sync     bool   `json:"sync"`
	FileSize int64  `json:"fileSize"`
	VLen     int    `json:"vlen"`
}

func init() {
	childEntries["c05commit2"] = func() int {
		var a commit2Arg
		if err := json.Unmarshal([]byte(os.Getenv("VERIF_CHILD_ARG")), &a); err != nil {
			fmt.Println("RESULT harness-error", err)
			return 3
		}
		o := kvh.DefaultOpt()
		o.FileSize = a.FileSize
		db, err := kv.Open(o.KV(a.Dir))
		if err != nil {
			fmt.Println("RESULT open-error", err)
			return 3
		}
		b := db.NewBatch(kv.BatchOptions{Sync: a.Sync})
		for i := 0; i < a.NOps; i++ {
			if err := b.Put([]byte(fmt.Sprintf("k%d", i)), kvh.GenValue(uint64(i+1), a.VLen)); err != nil {
				fmt.Println("RESULT put-error", err)
				return 3
			}
		}
		if err := b.Commit(); err != nil {
			fmt.Println("RESULT first-commit-error", err)
			return 0
		}
		err = b.Commit()
		fmt.Println("RESULT", kvh.ErrName(err))
		// the database must still be usable: the lock was released exactly once
		if err := db.Put([]byte("after"), []byte("1")); err != nil {
			fmt.Println("AFTER put-error", err)
			return 0
		}
		fmt.Println("AFTER ok")
		_ = db.Close()
		return 0
	}
}

// commitTwice enumerates batch shapes (empty, small, flushed in pieces; sync or
// not) and calls Commit a second time in a child process.
func commitTwice(t *testing.T, st *kvh.Stats) {
	e := kvh.GetEnv()
	exe, err := os.Executable()
	if err != nil {
		t.Fatalf("harness: %v", err)
	}
	idx := 0
	for _, nops := range []int{0, 1, 3, 12} {
		for _, sync := range []bool{false, true} {
			for _, fs := range []int64{200, 1 << 20} {
				idx++
				if !e.Mine(idx) {
					continue
				}
				dir := e.NewDir("c05child")
				arg := commit2Arg{Dir: dir, NOps: nops, Sync: sync, FileSize: fs, VLen: 60}
				raw, _ := json.Marshal(arg)
				cmd := exec.Command(exe)
				cmd.Env = append(os.Environ(), "VERIF_CHILD=c05commit2", "VERIF_CHILD_ARG="+string(raw))
				out, err := cmd.CombinedOutput()
				_ = os.RemoveAll(dir)
				st.Eval(1)
				st.Label("second-commit-in-child")
				st.NonTrivial(kvh.Hash64([]byte("commit2"), raw))
				c := &kvh.Case{Property: "C05", Kind: "c05commit2", Extra: map[string]any{"arg": arg}}
				if st.WantSample() {
					st.Sample(map[string]any{"kind": "second Commit in child process", "arg": arg, "output": strings.TrimSpace(string(out))})
				} else {
					st.Sample(nil)
				}
				text := string(out)
				switch {
				case err != nil:
					report(t, st, c, &kvh.Fail{Sig: "second-commit-kills-process", Msg: fmt.Sprintf("child died (%v) calling Commit twice on a batch of %d ops:\n%s", err, nops, tailStr(text, 1500))})
				case !strings.Contains(text, "RESULT ErrBatchCommitted"):
					report(t, st, c, &kvh.Fail{Sig: "second-commit-accepted", Msg: fmt.Sprintf("second Commit on a batch of %d ops: %s, want ErrBatchCommitted", nops, strings.TrimSpace(text))})
				case !strings.Contains(text, "AFTER ok"):
					report(t, st, c, &kvh.Fail{Sig: "database-unusable-after-second-commit", Msg: strings.TrimSpace(text)})
				}
			}
		}
	}
}

func tailStr(s string, n int) string {
	if len(s) > n {
		return "…" + s[len(s)-n:]
	}
	return s
}

func init() {
	replayers["c05commit2"] = func(c *kvh.Case, raw []byte) *kvh.Fail {
		exe, _ := os.Executable()
		b, _ := json.Marshal(c.Extra["arg"])
		var arg commit2Arg
		_ = json.Unmarshal(b, &arg)
		arg.Dir = kvh.GetEnv().NewDir("c05child")
		defer os.RemoveAll(arg.Dir)
		a, _ := json.Marshal(arg)
		cmd := exec.Command(exe)
		cmd.Env = append(os.Environ(), "VERIF_CHILD=c05commit2", "VERIF_CHILD_ARG="+string(a))
		out, err := cmd.CombinedOutput()
		if err != nil {
			return &kvh.Fail{Sig: "second-commit-kills-process", Msg: tailStr(string(out), 1500)}
		}
		if !strings.Contains(string(out), "RESULT ErrBatchCommitted") || !strings.Contains(string(out), "AFTER ok") {
			return &kvh.Fail{Sig: "second-commit-accepted", Msg: string(out)}
		}
		return nil
	}
}
