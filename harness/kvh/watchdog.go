package kvh

import (
	"encoding/json"
	"fmt"
	"os"
	"path/filepath"
	"runtime"
	"runtime/metrics"
	"strings"
	"sync/atomic"
	"time"
)

// InFlight describes the case a property is executing right now, for the
// memory watchdog and for post-mortem artefacts.
type InFlight struct {
	Property string
	Case     func() any
}

var inFlight atomic.Pointer[InFlight]

// SetInFlight registers (or with nil clears) the case in flight.
func SetInFlight(f *InFlight) { inFlight.Store(f) }

// PersistCase writes a complete case to the worker's "current" file before it is executed, so that it survives
// an unrecoverable death of the process (used by the concurrency checks, whose cases are known up front).
// ClearPersisted removes it after normal completion.
func PersistCase(property string, c any) {
	e := GetEnv()
	b, err := json.Marshal(c)
	if err != nil {
		return
	}
	_ = os.WriteFile(filepath.Join(e.Out, fmt.Sprintf("current-%s-%d.json", property, e.Shard)), b, 0o644)
}

func ClearPersisted(property string) {
	e := GetEnv()
	_ = os.Remove(filepath.Join(e.Out, fmt.Sprintf("current-%s-%d.json", property, e.Shard)))
}

// HeapLimit is the live-heap size beyond which the watchdog declares an
// unbounded allocation. Every generated case works on at most a few MiB of
// keys and values, so three orders of magnitude of head-room remain; the
// criterion is memory, not time, and therefore does not depend on load.
const HeapLimit = 3 << 30

// StartMemoryWatchdog polls the heap size. When the limit is crossed while a
// case is in flight it records a violation with that case and exits the
// process with status 1 (a runaway loop that allocates cannot be recovered
// from inside the goroutine that runs it).
func StartMemoryWatchdog() {
	sample := []metrics.Sample{{Name: "/memory/classes/heap/objects:bytes"}}
	go func() {
		for {
			time.Sleep(50 * time.Millisecond)
			metrics.Read(sample)
			if sample[0].Value.Kind() != metrics.KindUint64 || sample[0].Value.Uint64() < HeapLimit {
				continue
			}
			f := inFlight.Load()
			if f == nil {
				fmt.Fprintf(os.Stderr, "memory watchdog: heap beyond %d bytes with no case in flight\n", HeapLimit)
				os.Exit(2)
			}
			st := StatsFor(f.Property)
			msg := fmt.Sprintf("the live heap grew beyond %d bytes while executing this case (no generated case holds more than a few MiB of data): an operation allocates without bound", HeapLimit)
			path := st.Violation("unbounded-allocation", f.Case(), msg)
			fmt.Printf("VIOLATION-CANDIDATE sig=unbounded-allocation replay=%s\n%s\n", path, msg)
			os.Exit(1)
		}
	}()
}

// engineFrame marks stack frames of the code under test.
const engineFrame = "github.com/XiXi-2024/xixi-kv"

// StartDeadlockWatchdog decides "a call into the engine never returns" from goroutine wait states, not from
// elapsed time: while a case is in flight, every goroutine that is inside the engine is parked in a lock wait
// (sync.Mutex / sync.RWMutex), none is running, runnable or in a system call, and the set of those goroutines
// and their stacks is identical at three inspections 10 s apart. Nobody inside the engine can release the lock
// then, and the harness never holds an engine lock across calls of other goroutines (every batch is committed by
// the goroutine that opened it before that goroutine does anything else). The case in flight is recorded as a
// violation and the process exits with status 1 (a parked goroutine cannot be recovered from).
func StartDeadlockWatchdog() {
	go func() {
		var prev string
		var prevCase *InFlight
		same := 0
		for {
			time.Sleep(10 * time.Second)
			f := inFlight.Load()
			if f == nil {
				prev, prevCase, same = "", nil, 0
				continue
			}
			buf := make([]byte, 8<<20)
			n := runtime.Stack(buf, true)
			dump := string(buf[:n])
			stuck, other := 0, 0
			var sig []string
			for _, g := range strings.Split(dump, "\n\n") {
				if !strings.Contains(g, engineFrame+".") && !strings.Contains(g, engineFrame+"/") {
					continue
				}
				head := g
				if k := strings.IndexByte(g, '\n'); k >= 0 {
					head = g[:k]
				}
				if strings.Contains(head, "[sync.Mutex.Lock") || strings.Contains(head, "[sync.RWMutex.Lock") ||
					strings.Contains(head, "[sync.RWMutex.RLock") || strings.Contains(head, "[semacquire") {
					stuck++
					if k := strings.IndexByte(head, '['); k >= 0 {
						sig = append(sig, head[:k]+g[len(head):]) // goroutine id + frames, without the minutes counter
					}
				} else {
					other++
				}
			}
			cur := strings.Join(sig, "|")
			if stuck == 0 || other > 0 || f != prevCase || cur != prev {
				prev, prevCase, same = cur, f, 0
				if stuck == 0 || other > 0 {
					prev = ""
				}
				continue
			}
			same++
			if same < 2 {
				continue
			}
			st := StatsFor(f.Property)
			if len(dump) > 7000 {
				dump = dump[:7000]
			}
			msg := "every goroutine inside the engine is parked in a lock wait, none is runnable, and nothing changed between three inspections 10 s apart: the call in flight never returns (deadlock)\n" + dump
			path := st.Violation("deadlock", f.Case(), msg)
			fmt.Printf("VIOLATION-CANDIDATE sig=deadlock replay=%s\n%s\n", path, msg)
			os.Exit(1)
		}
	}()
}
