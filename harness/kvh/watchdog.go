package kvh

import (
	"encoding/json"
	"fmt"
	"os"
	"path/filepath"
	"runtime/metrics"
	"sync/atomic"
	"time"
)

// InFlight describes the case a property is executing right now, for the
// memory watchdog and for post-mortem artefacts.
type InFlight struct {
	Property string
	Case     func() any
}

var inFlight atomic.Pointer[InFlight]

// SetInFlight registers (or with nil clears) the case in flight.
func SetInFlight(f *InFlight) { inFlight.Store(f) }

// PersistCase writes a complete case to the worker's "current" file before it is executed, so that it survives
// an unrecoverable death of the process (used by the concurrency checks, whose cases are known up front).
// ClearPersisted removes it after normal completion.
func PersistCase(property string, c any) {
	e := GetEnv()
	b, err := json.Marshal(c)
	if err != nil {
		return
	}
	_ = os.WriteFile(filepath.Join(e.Out, fmt.Sprintf("current-%s-%d.json", property, e.Shard)), b, 0o644)
}

func ClearPersisted(property string) {
	e := GetEnv()
	_ = os.Remove(filepath.Join(e.Out, fmt.Sprintf("current-%s-%d.json", property, e.Shard)))
}

// HeapLimit is the live-heap size beyond which the watchdog declares an
// unbounded allocation. Every generated case works on at most a few MiB of
// keys and values, so three orders of magnitude of head-room remain; the
// criterion is memory, not time, and therefore does not depend on load.
const HeapLimit = 3 << 30

// StartMemoryWatchdog polls the heap size. When the limit is crossed while a
// case is in flight it records a violation with that case and exits the
// process with status 1 (a runaway loop that allocates cannot be recovered
// from inside the goroutine that runs it).
func StartMemoryWatchdog() {
	sample := []metrics.Sample{{Name: "/memory/classes/heap/objects:bytes"}}
	go func() {
		for {
			time.Sleep(50 * time.Millisecond)
			metrics.Read(sample)
			if sample[0].Value.Kind() != metrics.KindUint64 || sample[0].Value.Uint64() < HeapLimit {
				continue
			}
			f := inFlight.Load()
			if f == nil {
				fmt.Fprintf(os.Stderr, "memory watchdog: heap beyond %d bytes with no case in flight\n", HeapLimit)
				os.Exit(2)
			}
			st := StatsFor(f.Property)
			msg := fmt.Sprintf("the live heap grew beyond %d bytes while executing this case (no generated case holds more than a few MiB of data): an operation allocates without bound", HeapLimit)
			path := st.Violation("unbounded-allocation", f.Case(), msg)
			fmt.Printf("VIOLATION-CANDIDATE sig=unbounded-allocation replay=%s\n%s\n", path, msg)
			os.Exit(1)
		}
	}()
}
