package kvh

import (
	"bytes"
	"fmt"
	"sort"

	kv "github.com/XiXi-2024/xixi-kv"
)

// ModelIter is the reference iterator: a cursor over the sorted snapshot of
// the keys (with the prefix) that existed when the iterator was created.
type ModelIter struct {
	Keys    [][]byte // in iteration order
	Vals    [][]byte
	Pos     int // == len(Keys) when exhausted
	Reverse bool
}

// NewModelIter snapshots the model.
func NewModelIter(model map[string][]byte, prefix []byte, reverse bool) *ModelIter {
	ks := make([]string, 0, len(model))
	for k := range model {
		if bytes.HasPrefix([]byte(k), prefix) {
			ks = append(ks, k)
		}
	}
	sort.Strings(ks)
	if reverse {
		for i, j := 0, len(ks)-1; i < j; i, j = i+1, j-1 {
			ks[i], ks[j] = ks[j], ks[i]
		}
	}
	m := &ModelIter{Reverse: reverse}
	for _, k := range ks {
		m.Keys = append(m.Keys, []byte(k))
		m.Vals = append(m.Vals, model[k])
	}
	return m
}

func (m *ModelIter) Valid() bool { return m.Pos < len(m.Keys) }
func (m *ModelIter) Rewind()     { m.Pos = 0 }
func (m *ModelIter) Next() {
	if m.Pos < len(m.Keys) {
		m.Pos++
	}
}

// Ahead reports whether seeking to target is "at or ahead of the cursor in
// iteration order", the only seeks the property speaks about. For an
// exhausted iterator only targets beyond the last key qualify.
func (m *ModelIter) Ahead(target []byte) bool {
	if len(m.Keys) == 0 || m.Pos == 0 {
		return true // fresh or rewound: nothing has been passed yet
	}
	var ref []byte
	if m.Pos < len(m.Keys) {
		ref = m.Keys[m.Pos]
		c := bytes.Compare(target, ref)
		if m.Reverse {
			return c <= 0
		}
		return c >= 0
	}
	ref = m.Keys[len(m.Keys)-1]
	c := bytes.Compare(target, ref)
	if m.Reverse {
		return c < 0
	}
	return c > 0
}

// Seek positions at the first key >= target (<= target when reversed).
func (m *ModelIter) Seek(target []byte) {
	m.Pos = sort.Search(len(m.Keys), func(i int) bool {
		c := bytes.Compare(m.Keys[i], target)
		if m.Reverse {
			return c <= 0
		}
		return c >= 0
	})
}

// compareIter checks Valid/Key/Value of the real iterator against the model.
func compareIter(it *kv.Iterator, m *ModelIter, after string) *Fail {
	v := it.Valid()
	if v != m.Valid() {
		return failf("iter-valid", "after %s: Valid() = %v, reference %v (pos %d of %d)", after, v, m.Valid(), m.Pos, len(m.Keys))
	}
	if !v {
		return nil
	}
	k := it.Key()
	if !bytes.Equal(k, m.Keys[m.Pos]) {
		return failf("iter-key", "after %s: Key() = %q, reference %q (pos %d of %d)", after, k, m.Keys[m.Pos], m.Pos, len(m.Keys))
	}
	val, err := it.Value()
	if err != nil {
		return failf("iter-value-error", "after %s: Value() of %q = error %v", after, k, err)
	}
	if !sameBytes(val, m.Vals[m.Pos]) {
		return failf("iter-value", "after %s: Value() of %q = %s, value at creation was %s", after, k, ValueDigest(val), ValueDigest(m.Vals[m.Pos]))
	}
	return nil
}

// IterFeatures are measured per session.
type IterFeatures struct {
	Seeks, Rewinds, Nexts int
	RewindAfterNext       bool
	RewindAfterExhaustion bool
	SeekAfterNext         bool
	SeeksInARow           bool
	WriteAfterCreate      bool
	PrefixFiltered        int
	SnapshotKeys          int
	SkippedBackwardSeek   int
}

// RunIterSession executes one iterator session against db and the model,
// applying interleaved writes through apply (which must update model state).
func RunIterSession(db *kv.DB, model map[string][]byte, spec *IterOp, apply func(op *Op) *Fail, tr func(string, ...any)) (*IterFeatures, *Fail) {
	feat := &IterFeatures{}
	m := NewModelIter(model, spec.Prefix, spec.Reverse)
	feat.SnapshotKeys = len(m.Keys)
	feat.PrefixFiltered = len(model) - len(m.Keys)
	it := db.NewIterator(kv.IteratorOptions{Prefix: append([]byte(nil), spec.Prefix...), Reverse: spec.Reverse})
	defer it.Close()
	positioned := len(spec.Prefix) == 0 // a fresh iterator without prefix may be read at once
	if positioned {
		if f := compareIter(it, m, "creation"); f != nil {
			return feat, f
		}
	}
	didNext := false
	lastSeek := false
	for i, c := range spec.Calls {
		what := fmt.Sprintf("call %d %s", i, c.C)
		switch c.C {
		case "rewind":
			it.Rewind()
			if didNext {
				feat.RewindAfterNext = true
			}
			if positioned && !m.Valid() && len(m.Keys) > 0 {
				feat.RewindAfterExhaustion = true
			}
			m.Rewind()
			positioned = true
			feat.Rewinds++
			lastSeek = false
		case "seek":
			if !positioned {
				// fresh prefix iterator: a Seek is a legal first call
				m.Rewind()
			}
			if !m.Ahead(c.Key) {
				feat.SkippedBackwardSeek++
				continue
			}
			it.Seek(append([]byte(nil), c.Key...))
			m.Seek(c.Key)
			positioned = true
			feat.Seeks++
			if didNext {
				feat.SeekAfterNext = true
			}
			if lastSeek {
				feat.SeeksInARow = true
			}
			lastSeek = true
			what = fmt.Sprintf("call %d seek %q", i, c.Key)
		case "next":
			if !positioned {
				continue
			}
			it.Next()
			m.Next()
			didNext = true
			feat.Nexts++
			lastSeek = false
		case "write":
			if c.Op != nil && apply != nil {
				if f := apply(c.Op); f != nil {
					return feat, f
				}
				feat.WriteAfterCreate = true
			}
			continue
		case "check":
		default:
			continue
		}
		if positioned {
			if f := compareIter(it, m, what); f != nil {
				return feat, f
			}
			if tr != nil {
				if m.Valid() {
					tr("iter %s -> %x", c.C, m.Keys[m.Pos])
				} else {
					tr("iter %s -> end", c.C)
				}
			}
		}
	}
	// full traversal from a rewind: every snapshot key with the prefix exactly once, in order
	it.Rewind()
	m.Rewind()
	n := 0
	for ; it.Valid(); it.Next() {
		if n >= len(m.Keys) {
			return feat, failf("iter-extra-key", "full traversal yields more than the %d snapshot keys: extra %q", len(m.Keys), it.Key())
		}
		m.Pos = n
		if f := compareIter(it, m, fmt.Sprintf("traversal step %d", n)); f != nil {
			return feat, f
		}
		n++
	}
	if n != len(m.Keys) {
		return feat, failf("iter-missing-key", "full traversal yields %d keys, snapshot has %d (first missing %q)", n, len(m.Keys), m.Keys[n])
	}
	return feat, nil
}

func (r *Runner) execIter(op *Op) *Fail {
	if op.Iter == nil {
		return nil
	}
	apply := func(w *Op) *Fail {
		_, _, f := r.exec(w)
		return f
	}
	feat, f := RunIterSession(r.DB, r.Model, op.Iter, apply, r.tr)
	r.F.Enumerations++
	if feat != nil {
		r.lastIter = feat
	}
	return f
}
