package kvh

import (
	"bytes"
	"fmt"
	"sort"

	kv "github.com/XiXi-2024/xixi-kv"
	"github.com/cespare/xxhash"
)

// ModelIter is the reference iterator: a cursor over the sorted snapshot of
// the keys (with the prefix) that existed when the iterator was created.
type ModelIter struct {
	Keys    [][]byte // in iteration order
	Vals    [][]byte
	Pos     int // == len(Keys) when exhausted
	Reverse bool
}

// NewModelIter snapshots the model.
func NewModelIter(model map[string][]byte, prefix []byte, reverse bool) *ModelIter {
	ks := make([]string, 0, len(model))
	for k := range model {
		if bytes.HasPrefix([]byte(k), prefix) {
			ks = append(ks, k)
		}
	}
	sort.Strings(ks)
	if reverse {
		for i, j := 0, len(ks)-1; i < j; i, j = i+1, j-1 {
			ks[i], ks[j] = ks[j], ks[i]
		}
	}
	m := &ModelIter{Reverse: reverse}
	for _, k := range ks {
		m.Keys = append(m.Keys, []byte(k))
		m.Vals = append(m.Vals, model[k])
	}
	return m
}

func (m *ModelIter) Valid() bool { return m.Pos < len(m.Keys) }
func (m *ModelIter) Rewind()     { m.Pos = 0 }
func (m *ModelIter) Next() {
	if m.Pos < len(m.Keys) {
		m.Pos++
	}
}

// Ahead reports whether seeking to target is "at or ahead of the cursor in
// iteration order", the only seeks the property speaks about. For an
// exhausted iterator only targets beyond the last key qualify.
func (m *ModelIter) Ahead(target []byte) bool {
	if len(m.Keys) == 0 || m.Pos == 0 {
		return true // fresh or rewound: nothing has been passed yet
	}
	var ref []byte
	if m.Pos < len(m.Keys) {
		ref = m.Keys[m.Pos]
		c := bytes.Compare(target, ref)
		if m.Reverse {
			return c <= 0
		}
		return c >= 0
	}
	ref = m.Keys[len(m.Keys)-1]
	c := bytes.Compare(target, ref)
	if m.Reverse {
		return c < 0
	}
	return c > 0
}

// Seek positions at the first key >= target (<= target when reversed).
func (m *ModelIter) Seek(target []byte) {
	m.Pos = sort.Search(len(m.Keys), func(i int) bool {
		c := bytes.Compare(m.Keys[i], target)
		if m.Reverse {
			return c <= 0
		}
		return c >= 0
	})
}

// IterAPI is what DB iterators and index iterators have in common.
type IterAPI interface {
	Rewind()
	Seek(key []byte)
	Next()
	Valid() bool
	Key() []byte
}

// compareIter checks Valid/Key (and the value through checkValue) of the real
// iterator against the model.
func compareIter(it IterAPI, m *ModelIter, after string, checkValue func(pos int) *Fail) *Fail {
	v := it.Valid()
	if v != m.Valid() {
		return failf("iter-valid", "after %s: Valid() = %v, reference %v (pos %d of %d)", after, v, m.Valid(), m.Pos, len(m.Keys))
	}
	if !v {
		return nil
	}
	k := it.Key()
	if !bytes.Equal(k, m.Keys[m.Pos]) {
		return failf("iter-key", "after %s: Key() = %q, reference %q (pos %d of %d)", after, k, m.Keys[m.Pos], m.Pos, len(m.Keys))
	}
	if checkValue != nil {
		if f := checkValue(m.Pos); f != nil {
			f.Msg = "after " + after + ": " + f.Msg
			return f
		}
	}
	if _, ok := it.(*kv.Iterator); ok {
		ScribbleKey(k) // a key handed out by the database belongs to the caller
	}
	// the index's own iterators (C10 level 1) hand out the index's memory; no caller of the database can reach it since
	// ListKeys, Iterator.Key and Fold hand out copies (950d01c), so nothing is written there
	return nil
}

// ScribbleKey does what a caller may do to a key slice the database handed it (ListKeys, Iterator.Key, the Fold
// callback): overwrite it in place - masking a key for display, bumping its last byte to build the next seek target -
// and append to it. If the slice is the index's own memory the index is corrupted and the following reads fail.
func ScribbleKey(k []byte) {
	for i := range k {
		k[i] ^= 0xFF
	}
	ScribbleBehind(k)
}

// ScribbleBehind does what a caller's append(k, ...) does to a slice it was handed: it writes into the spare
// capacity behind the slice's length (up to 8 bytes). Harmless when that capacity belongs to the slice alone; if it
// is shared with other keys or values handed out by the same enumeration, those change and the comparison of the
// following elements fails.
func ScribbleBehind(k []byte) {
	ext := k[len(k):min(cap(k), len(k)+8)]
	for i := range ext {
		ext[i] = 0xEE
	}
}

// IterFeatures are measured per session.
type IterFeatures struct {
	Seeks, Rewinds, Nexts int
	RewindAfterNext       bool
	RewindAfterExhaustion bool
	SeekAfterNext         bool
	SeeksInARow           bool
	WriteAfterCreate      bool
	PrefixFiltered        int
	SnapshotKeys          int
	SkippedBackwardSeek   int
	BackwardSeeks         int
}

// RunIterSession executes one iterator session against db and the model,
// applying interleaved writes through apply (which must update model state).
func RunIterSession(db *kv.DB, model map[string][]byte, spec *IterOp, apply func(op *Op) *Fail, tr func(string, ...any)) (*IterFeatures, *Fail) {
	m := NewModelIter(model, spec.Prefix, spec.Reverse)
	// the caller builds its prefixes in one buffer and reuses it as soon as NewIterator has returned
	prefixBuf := append([]byte(nil), spec.Prefix...)
	it := db.NewIterator(kv.IteratorOptions{Prefix: prefixBuf, Reverse: spec.Reverse})
	for i := range prefixBuf {
		prefixBuf[i] ^= 0xFF
	}
	defer it.Close()
	checkValue := func(pos int) *Fail {
		val, err := it.Value()
		if err != nil {
			return failf("iter-value-error", "Value() of %q = error %v", m.Keys[pos], err)
		}
		if !sameBytes(val, m.Vals[pos]) {
			return failf("iter-value", "Value() of %q = %s, value at creation was %s", m.Keys[pos], ValueDigest(val), ValueDigest(m.Vals[pos]))
		}
		return nil
	}
	feat, f := RunIterCalls(it, m, spec, true, checkValue, apply, tr)
	feat.PrefixFiltered = len(model) - len(m.Keys)
	return feat, f
}

// RunIterCalls drives any iterator through the calls of spec and compares it
// with the reference cursor after every call, then does a full traversal.
// readFresh says whether the iterator may be read before the first
// Rewind/Seek (true for iterators without prefix).
func RunIterCalls(it IterAPI, m *ModelIter, spec *IterOp, readFresh bool, checkValue func(pos int) *Fail, apply func(op *Op) *Fail, tr func(string, ...any)) (*IterFeatures, *Fail) {
	feat := &IterFeatures{}
	feat.SnapshotKeys = len(m.Keys)
	positioned := readFresh
	if positioned {
		if f := compareIter(it, m, "creation", checkValue); f != nil {
			return feat, f
		}
	}
	didNext := false
	lastSeek := false
	free := false // after a backward Seek: unspecified territory until the next Rewind
	record := func(c string) {
		if tr == nil {
			return
		}
		if it.Valid() {
			tr("iter (unspecified) %s -> %x", c, it.Key())
		} else {
			tr("iter (unspecified) %s -> end", c)
		}
	}
	for i, c := range spec.Calls {
		what := fmt.Sprintf("call %d %s", i, c.C)
		if free && (c.C == "seek" || c.C == "next") {
			if c.C == "seek" {
				it.Seek(append([]byte(nil), c.Key...))
			} else if it.Valid() {
				it.Next()
			}
			record(c.C)
			continue
		}
		switch c.C {
		case "rewind":
			free = false
			it.Rewind()
			if didNext {
				feat.RewindAfterNext = true
			}
			if positioned && !m.Valid() && len(m.Keys) > 0 {
				feat.RewindAfterExhaustion = true
			}
			m.Rewind()
			positioned = true
			feat.Rewinds++
			lastSeek = false
		case "seek":
			if !positioned {
				// fresh prefix iterator: a Seek is a legal first call
				m.Rewind()
			}
			if !m.Ahead(c.Key) {
				if spec.Backward && positioned {
					it.Seek(append([]byte(nil), c.Key...))
					free = true
					feat.BackwardSeeks++
					record("seek")
					continue
				}
				feat.SkippedBackwardSeek++
				continue
			}
			it.Seek(append([]byte(nil), c.Key...))
			m.Seek(c.Key)
			positioned = true
			feat.Seeks++
			if didNext {
				feat.SeekAfterNext = true
			}
			if lastSeek {
				feat.SeeksInARow = true
			}
			lastSeek = true
			what = fmt.Sprintf("call %d seek %q", i, c.Key)
		case "next":
			if !positioned {
				continue
			}
			it.Next()
			m.Next()
			didNext = true
			feat.Nexts++
			lastSeek = false
		case "write":
			if c.Op != nil && apply != nil {
				if f := apply(c.Op); f != nil {
					return feat, f
				}
				feat.WriteAfterCreate = true
			}
			continue
		case "check":
		default:
			continue
		}
		if positioned {
			if f := compareIter(it, m, what, checkValue); f != nil {
				return feat, f
			}
			if tr != nil {
				if m.Valid() {
					tr("iter %s -> %x", c.C, m.Keys[m.Pos])
				} else {
					tr("iter %s -> end", c.C)
				}
			}
		}
	}
	// full traversal from a rewind: every snapshot key with the prefix exactly once, in order
	it.Rewind()
	m.Rewind()
	n := 0
	for ; it.Valid(); it.Next() {
		if n >= len(m.Keys) {
			return feat, failf("iter-extra-key", "full traversal yields more than the %d snapshot keys: extra %q", len(m.Keys), it.Key())
		}
		m.Pos = n
		if f := compareIter(it, m, fmt.Sprintf("traversal step %d", n), checkValue); f != nil {
			return feat, f
		}
		n++
	}
	if n != len(m.Keys) {
		return feat, failf("iter-missing-key", "full traversal yields %d keys, snapshot has %d (first missing %q)", n, len(m.Keys), m.Keys[n])
	}
	return feat, nil
}

func (r *Runner) execIter(op *Op) *Fail {
	if op.Iter == nil {
		return nil
	}
	apply := func(w *Op) *Fail {
		_, _, f := r.exec(w)
		return f
	}
	var snapKeys [][]byte
	for k := range r.Model {
		if bytes.HasPrefix([]byte(k), op.Iter.Prefix) {
			snapKeys = append(snapKeys, []byte(k))
		}
	}
	feat, f := RunIterSession(r.DB, r.Model, op.Iter, apply, r.tr)
	r.F.Enumerations++
	r.F.IterSessions++
	if feat != nil {
		r.lastIter = feat
		if r.F.IterLabels == nil {
			r.F.IterLabels = map[string]int{}
		}
		spread := ShardsUsed(snapKeys, r.Opt.Shards) >= 2
		if spread && (feat.Seeks > 0 || feat.RewindAfterNext) {
			r.F.IterNonTrivial++
		}
		feat.AddTo(r.F.IterLabels, op.Iter)
	}
	return f
}

// AddTo accumulates the measured session features as labels.
func (f *IterFeatures) AddTo(l map[string]int, spec *IterOp) {
	inc := func(c bool, n string) {
		if c {
			l[n]++
		}
	}
	inc(f.RewindAfterExhaustion, "iter-rewind-after-exhaustion")
	inc(f.RewindAfterNext, "iter-rewind-after-next")
	inc(f.SeekAfterNext, "iter-seek-after-next")
	inc(f.SeeksInARow, "iter-several-seeks-in-a-row")
	inc(f.WriteAfterCreate, "iter-write-after-creation")
	inc(spec.Reverse, "iter-reverse")
	inc(len(spec.Prefix) > 0 && f.PrefixFiltered > 0, "iter-prefix-filtered-some-key")
	inc(len(spec.Prefix) > 0 && f.SnapshotKeys == 0, "iter-prefix-matches-nothing")
	inc(f.SkippedBackwardSeek > 0, "iter-backward-seek-not-issued")
	inc(f.BackwardSeeks > 0, "iter-backward-seek-issued-unspecified")
}

// ShardsUsed computes over how many index shards the keys spread (measurement
// for labels only; mirrors the documented scheme: xxhash & (2^k - 1), capped at 1024).
func ShardsUsed(keys [][]byte, shardNum int) int {
	n := 1
	for n < shardNum && n < 1024 {
		n <<= 1
	}
	seen := map[uint64]bool{}
	for _, k := range keys {
		seen[xxhash.Sum64(k)&uint64(n-1)] = true
	}
	return len(seen)
}
