package kvh

import (
	"encoding/json"
	"fmt"
	"os"
	"path/filepath"
	"sort"
	"sync"
	"time"
)

// Violation is one failed case with the artefact that replays it.
type Violation struct {
	Sig    string `json:"sig"`
	Replay string `json:"replay"`
	Msg    string `json:"msg"`
}

// KnownHit is a listed finding that a probe reproduced on this tree.
type KnownHit struct {
	Sig    string `json:"sig"`
	Detail string `json:"detail"`
}

// ExhDomain describes a finite sub-domain that was enumerated completely.
type ExhDomain struct {
	Name string `json:"name"`
	Size int64  `json:"size"`
}

// Stats collects what one test process covered; the driver merges the shards
// into the evidence file.
type Stats struct {
	mu          sync.Mutex
	Property    string
	start       time.Time
	evaluations int64
	discarded   int64
	nontrivial  map[uint64]struct{}
	labels      map[string]int64
	excluded    map[string]int64
	samples     []json.RawMessage
	sampleSeen  int64
	exhaustive  []ExhDomain
	violations  []Violation
	known       []KnownHit
	rule        string
	assumptions []string
	extra       map[string]any
	violN       int
}

var (
	statsMu  sync.Mutex
	statsAll = map[string]*Stats{}
)

// StatsFor returns the process-wide collector of a property.
func StatsFor(property string) *Stats {
	statsMu.Lock()
	defer statsMu.Unlock()
	if s, ok := statsAll[property]; ok {
		return s
	}
	s := &Stats{
		Property:   property,
		start:      time.Now(),
		nontrivial: map[uint64]struct{}{},
		labels:     map[string]int64{},
		excluded:   map[string]int64{},
		extra:      map[string]any{},
	}
	statsAll[property] = s
	return s
}

func (s *Stats) SetRule(rule string, assumptions ...string) {
	s.mu.Lock()
	s.rule = rule
	s.assumptions = assumptions
	s.mu.Unlock()
}

// Eval counts n executed cases.
func (s *Stats) Eval(n int64) {
	s.mu.Lock()
	s.evaluations += n
	s.mu.Unlock()
}

func (s *Stats) Discard(n int64) {
	s.mu.Lock()
	s.discarded += n
	s.mu.Unlock()
}

// NonTrivial records the identity hash of a case that met the property's
// stated non-trivial rule.
func (s *Stats) NonTrivial(h uint64) {
	s.mu.Lock()
	s.nontrivial[h] = struct{}{}
	s.mu.Unlock()
}

func (s *Stats) Label(name string) { s.LabelN(name, 1) }

func (s *Stats) LabelN(name string, n int64) {
	s.mu.Lock()
	s.labels[name] += n
	s.mu.Unlock()
}

func (s *Stats) Exclude(sig string, n int64) {
	s.mu.Lock()
	s.excluded[sig] += n
	s.mu.Unlock()
}

func (s *Stats) Exhaustive(name string, size int64) {
	s.mu.Lock()
	s.exhaustive = append(s.exhaustive, ExhDomain{name, size})
	s.mu.Unlock()
}

func (s *Stats) Extra(key string, v any) {
	s.mu.Lock()
	s.extra[key] = v
	s.mu.Unlock()
}

func (s *Stats) ExtraAdd(key string, n int64) {
	s.mu.Lock()
	cur, _ := s.extra[key].(int64)
	s.extra[key] = cur + n
	s.mu.Unlock()
}

// Sample offers a case for the evidence samples. The first three offers and
// then every offer whose ordinal is a power of two are kept (deterministic, no
// RNG), at most 12.
func (s *Stats) Sample(v any) {
	s.mu.Lock()
	defer s.mu.Unlock()
	s.sampleSeen++
	n := s.sampleSeen
	keep := n <= 3 || (n&(n-1)) == 0
	if !keep || len(s.samples) >= 12 {
		return
	}
	b, err := json.Marshal(v)
	if err != nil {
		return
	}
	if len(b) > 6000 {
		b, _ = json.Marshal(map[string]any{"truncated": string(b[:6000])})
	}
	s.samples = append(s.samples, b)
}

// WantSample reports whether the next Sample call would keep its argument, so
// callers can avoid building an expensive description.
func (s *Stats) WantSample() bool {
	s.mu.Lock()
	defer s.mu.Unlock()
	n := s.sampleSeen + 1
	return len(s.samples) < 12 && (n <= 3 || (n&(n-1)) == 0)
}

func (s *Stats) Known(sig, detail string) {
	s.mu.Lock()
	defer s.mu.Unlock()
	for _, k := range s.known {
		if k.Sig == sig {
			return
		}
	}
	s.known = append(s.known, KnownHit{sig, detail})
}

// Violation stores the replay artefact of a failed case and records it. It
// returns the path written. rapid re-executes the minimal case last, so the
// entry recorded last for a signature is the shrunk one; the file name is
// reused per signature so that it ends up holding the minimal case.
func (s *Stats) Violation(sig string, replay any, msg string) string {
	e := GetEnv()
	s.mu.Lock()
	defer s.mu.Unlock()
	name := fmt.Sprintf("%s-%s-shard%d.json", s.Property, sanitize(sig), e.Shard)
	path := filepath.Join(e.Out, name)
	var b []byte
	switch r := replay.(type) {
	case []byte:
		b = r
	default:
		b, _ = json.MarshalIndent(replay, "", " ")
	}
	_ = os.WriteFile(path, b, 0o644)
	for i := range s.violations {
		if s.violations[i].Sig == sig {
			s.violations[i].Msg = msg
			s.violations[i].Replay = path
			s.flushLocked()
			return path
		}
	}
	s.violations = append(s.violations, Violation{Sig: sig, Replay: path, Msg: msg})
	s.flushLocked()
	return path
}

func sanitize(s string) string {
	out := []byte(s)
	for i, c := range out {
		ok := c >= 'a' && c <= 'z' || c >= 'A' && c <= 'Z' || c >= '0' && c <= '9' || c == '-' || c == '_'
		if !ok {
			out[i] = '_'
		}
	}
	if len(out) > 60 {
		out = out[:60]
	}
	return string(out)
}

type statsFile struct {
	Property    string            `json:"property"`
	Tier        string            `json:"tier"`
	Seed        int64             `json:"seed"`
	Shard       int               `json:"shard"`
	Evaluations int64             `json:"evaluations"`
	Discarded   int64             `json:"discarded"`
	NonTrivial  []uint64          `json:"nontrivial_hashes"`
	Labels      map[string]int64  `json:"labels"`
	Excluded    map[string]int64  `json:"excluded"`
	Samples     []json.RawMessage `json:"samples"`
	Exhaustive  []ExhDomain       `json:"exhaustive_domains"`
	Violations  []Violation       `json:"violations"`
	Known       []KnownHit        `json:"known_findings"`
	Rule        string            `json:"rule"`
	Assumptions []string          `json:"assumptions"`
	Extra       map[string]any    `json:"extra"`
	WallS       float64           `json:"wall_s"`
	Complete    bool              `json:"complete"`
}

// Flush writes the stats file of this property for the driver.
func (s *Stats) Flush() {
	s.mu.Lock()
	defer s.mu.Unlock()
	s.flushLocked()
}

var completeFlag = map[string]bool{}

// Complete marks the property's run in this process as finished normally and
// flushes. The driver treats a stats file without the mark as a dead worker.
func (s *Stats) Complete() {
	statsMu.Lock()
	completeFlag[s.Property] = true
	statsMu.Unlock()
	s.Flush()
}

func (s *Stats) flushLocked() {
	e := GetEnv()
	hs := make([]uint64, 0, len(s.nontrivial))
	for h := range s.nontrivial {
		hs = append(hs, h)
	}
	sort.Slice(hs, func(i, j int) bool { return hs[i] < hs[j] })
	statsMu.Lock()
	done := completeFlag[s.Property]
	statsMu.Unlock()
	f := statsFile{
		Property: s.Property, Tier: e.Tier, Seed: e.Seed, Shard: e.Shard,
		Evaluations: s.evaluations, Discarded: s.discarded, NonTrivial: hs,
		Labels: s.labels, Excluded: s.excluded, Samples: s.samples,
		Exhaustive: s.exhaustive, Violations: s.violations, Known: s.known,
		Rule: s.rule, Assumptions: s.assumptions, Extra: s.extra,
		WallS: time.Since(s.start).Seconds(), Complete: done,
	}
	b, err := json.Marshal(f)
	if err != nil {
		return
	}
	path := filepath.Join(e.Out, fmt.Sprintf("stats-%s-%d.json", s.Property, e.Shard))
	tmp := path + ".tmp"
	if os.WriteFile(tmp, b, 0o644) == nil {
		_ = os.Rename(tmp, path)
	}
}
