//go:build !verif

package kvh

// HooksEnabled reports whether the engine was built with its hooks.
const HooksEnabled = false

// Install is unavailable without the verif build tag.
func Install(l *IOLog) {
	if l != nil {
		panic("kvh: the harness must be built with -tags verif")
	}
}
