package kvh

import (
	"encoding/binary"
	"hash/fnv"

	"github.com/valyala/bytebufferpool"
)

// GenValue returns n bytes that are a pure function of (seed, n). Every write
// in a case uses a fresh seed, so every written value is unique and a stale
// read can always be told from a correct one. No entropy is drawn from rapid
// for value contents.
func GenValue(seed uint64, n int) []byte {
	if n <= 0 {
		return []byte{}
	}
	out := make([]byte, n)
	FillValue(out, seed)
	return out
}

// OpValue is the value a history op writes: GenValue for ten seeds in
// thirteen; the others give all zero bytes, a pseudo-random first half followed
// by zero bytes, and all 0xff bytes - contents that look like holes, padding
// or pre-extended file space to any code that inspects bytes instead of
// lengths. Values of one such class and one length are equal, so a stale read
// among them goes unnoticed; the unique classes dominate for that reason.
func OpValue(seed uint64, n int) []byte {
	v := GenValue(seed, n)
	switch seed % 13 {
	case 5:
		clear(v)
	case 9:
		clear(v[n/2:])
	case 11:
		for i := range v {
			v[i] = 0xff
		}
	}
	return v
}

// FillValue fills out with the (seed, len(out)) stream.
func FillValue(out []byte, seed uint64) {
	n := len(out)
	x := seed*0x9E3779B97F4A7C15 + uint64(n)*0xBF58476D1CE4E5B9 + 0x94D049BB133111EB
	if x == 0 {
		x = 1
	}
	i := 0
	var tmp [8]byte
	for i < n {
		x ^= x << 13
		x ^= x >> 7
		x ^= x << 17
		binary.LittleEndian.PutUint64(tmp[:], x)
		i += copy(out[i:], tmp[:])
	}
}

// Hash64 hashes a sequence of byte strings (length-prefixed) to 64 bits.
func Hash64(parts ...[]byte) uint64 {
	h := fnv.New64a()
	var l [8]byte
	for _, p := range parts {
		binary.LittleEndian.PutUint64(l[:], uint64(len(p)))
		h.Write(l[:])
		h.Write(p)
	}
	return h.Sum64()
}

// ValueDigest is a short printable description of a value.
func ValueDigest(v []byte) string {
	if len(v) <= 12 {
		return "x" + hexs(v)
	}
	return "len" + itoa(len(v)) + "#" + hexs(u64b(Hash64(v)))[:8]
}

func u64b(x uint64) []byte {
	var b [8]byte
	binary.BigEndian.PutUint64(b[:], x)
	return b[:]
}

const hexdig = "0123456789abcdef"

func hexs(b []byte) string {
	out := make([]byte, 0, len(b)*2)
	for _, c := range b {
		out = append(out, hexdig[c>>4], hexdig[c&15])
	}
	return string(out)
}

func itoa(n int) string {
	if n == 0 {
		return "0"
	}
	neg := n < 0
	if neg {
		n = -n
	}
	var b [20]byte
	i := len(b)
	for n > 0 {
		i--
		b[i] = byte('0' + n%10)
		n /= 10
	}
	if neg {
		i--
		b[i] = '-'
	}
	return string(b[i:])
}

// PoisonPools overwrites the whole capacity of up to n buffers of the byte
// buffer pool the engine draws from (the package-level bytebufferpool) and
// hands them back. Code that reads a pooled buffer beyond the length it has
// filled then sees this pattern instead of the bytes a previous, successful
// read of the same record happened to leave there - without it such a read can
// return the right value by luck. Correct code never looks beyond the length,
// so this has no effect on it.
func PoisonPools(n int) {
	// the engine's private pool of 32 KiB block buffers, through its verif hook
	poisonBlockPool(n)
	bs := make([]*bytebufferpool.ByteBuffer, 0, n)
	for i := 0; i < n; i++ {
		b := bytebufferpool.Get()
		full := b.B[:cap(b.B)]
		for j := range full {
			full[j] = 0xA5
		}
		bs = append(bs, b)
	}
	for _, b := range bs {
		b.Reset()
		bytebufferpool.Put(b)
	}
}
