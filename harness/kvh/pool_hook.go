//go:build verif

package kvh

import "github.com/XiXi-2024/xixi-kv/datafile"

func poisonBlockPool(n int) { datafile.VerifPoisonBlockPool(n) }

// FillBlockPool leaves content in up to n pooled block buffers of the engine (see datafile.VerifFillBlockPool).
func FillBlockPool(n int, content []byte) { datafile.VerifFillBlockPool(n, content) }
