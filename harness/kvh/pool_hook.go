//go:build verif

package kvh

import "github.com/XiXi-2024/xixi-kv/datafile"

func poisonBlockPool(n int) { datafile.VerifPoisonBlockPool(n) }
