//go:build !verif

package kvh

func poisonBlockPool(n int) {}
