//go:build !verif

package kvh

func poisonBlockPool(n int)               {}
func FillBlockPool(n int, content []byte) {}
