package kvh

import (
	"math/bits"

	"pgregory.net/rapid"
)

// rapid's integer generators and SampledFrom are deliberately biased towards
// small values and range ends. That is welcome for lengths, but wrong for
// choosing among alternatives (op kinds, configurations, percentages). U draws
// a uniform integer in [0, n) from raw unbiased bits (rapid.Bool), which still
// shrinks towards 0.
func U(t *rapid.T, n int, label string) int {
	if n <= 1 {
		return 0
	}
	k := bits.Len(uint(n - 1))
	for try := 0; try < 4; try++ {
		x := 0
		for i := 0; i < k; i++ {
			x <<= 1
			if rapid.Bool().Draw(t, label) {
				x |= 1
			}
		}
		if x < n {
			return x
		}
	}
	return 0
}

// Pick chooses uniformly among the alternatives.
func Pick[T any](t *rapid.T, xs []T, label string) T {
	return xs[U(t, len(xs), label)]
}

// Pct is true with probability p/100.
func Pct(t *rapid.T, p int, label string) bool {
	return U(t, 100, label) < p
}
