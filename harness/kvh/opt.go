package kvh

import (
	"fmt"
	"os"
	"path/filepath"

	kv "github.com/XiXi-2024/xixi-kv"
	"github.com/XiXi-2024/xixi-kv/fio"
	"github.com/XiXi-2024/xixi-kv/index"
	"pgregory.net/rapid"
)

// Opt is the serialisable description of a database configuration.
type Opt struct {
	Index        int8  `json:"index"`  // 1 B-tree, 2 skip list, 3 hash map
	Shards       int   `json:"shards"` // as passed; the engine rounds it
	IO           byte  `json:"io"`     // 0 standard, 1 mmap
	FileSize     int64 `json:"fileSize"`
	Sync         byte  `json:"sync"` // 0 No, 1 Always, 2 Threshold
	BytesPerSync uint  `json:"bytesPerSync"`
	// Slash: the directory is passed with a trailing separator ("…/db/"): another spelling of the same directory
	Slash bool `json:"slash,omitempty"`
	// OddDir / Sidecar are read from the FIRST configuration of a history only (they describe the directory, which
	// stays the same across reopens): the directory's name contains glob metacharacters, a space and a non-ASCII
	// letter; the directory holds files that are not the engine's (a sidecar file whose name sorts behind the data
	// files, a hidden file, a lost+found sub-directory), created before the first Open
	OddDir  bool `json:"oddDir,omitempty"`
	Sidecar bool `json:"sidecar,omitempty"`
	// Spelling (first configuration only): 1 = the directory is named through a path that is not clean
	// ("…/db/../db"), 2 = the name is a symbolic link to the real directory, in every session of the history alike
	Spelling int `json:"spelling,omitempty"`
}

// DirName returns the name of the data directory of a history that starts with configuration o.
func (o Opt) DirName() string {
	if o.OddDir {
		return "d[4-2]b *?é"
	}
	return "db"
}

// PrepareDir creates the foreign files of a history that starts with configuration o.
func (o Opt) PrepareDir(dir string) {
	switch o.Spelling {
	case 1:
		_ = os.MkdirAll(dir, 0o755) // "…/db/../db" only resolves once db exists
	case 2:
		// dir itself is the symbolic link; the harness uses that spelling everywhere, as the application would
		_ = os.MkdirAll(dir+".real", 0o755)
		_ = os.Symlink(filepath.Base(dir)+".real", dir)
	}
	if !o.Sidecar {
		return
	}
	_ = os.MkdirAll(filepath.Join(dir, "lost+found"), 0o755)
	_ = os.WriteFile(filepath.Join(dir, "zz-notes.json"), []byte("{\"schema\": 3}\n"), 0o644)
	_ = os.WriteFile(filepath.Join(dir, ".hidden"), []byte("x"), 0o644)
	_ = os.WriteFile(filepath.Join(dir, "README"), nil, 0o644)
}

func (o Opt) KV(dir string) kv.Options {
	if o.Spelling == 1 {
		dir = dir + "/../" + filepath.Base(dir)
	}
	if o.Slash {
		dir += "/"
	}
	return kv.Options{
		DirPath:               dir,
		DataFileSize:          o.FileSize,
		SyncStrategy:          kv.SyncStrategy(o.Sync),
		BytesPerSync:          o.BytesPerSync,
		IndexType:             index.IndexType(o.Index),
		FileIOType:            fio.FileIOType(o.IO),
		EnableBackgroundMerge: false,
		DataFileMergeRatio:    0,
		ShardNum:              o.Shards,
	}
}

func (o Opt) String() string {
	s := fmt.Sprintf("idx%d/sh%d/io%d/fs%d/sync%d:%d", o.Index, o.Shards, o.IO, o.FileSize, o.Sync, o.BytesPerSync)
	if o.Slash {
		s += "/dir-with-trailing-slash"
	}
	if o.OddDir {
		s += "/odd-dir-name"
	}
	if o.Sidecar {
		s += "/foreign-files"
	}
	if o.Spelling > 0 {
		s += fmt.Sprintf("/spelling%d", o.Spelling)
	}
	return s
}

// DefaultOpt mirrors the configuration the repository's tests run in.
func DefaultOpt() Opt {
	return Opt{Index: 3, Shards: 16, IO: 0, FileSize: 512 << 20, Sync: 0, BytesPerSync: 1 << 20}
}

var (
	shardChoices    = []int{1, 2, 3, 16, 1, 2, 3, 16, 1024, 5000} // 1024+ (the engine's cap) in 20 % of cases: each Open/scan costs 1024 shard visits
	fileSizeChoices = []int64{1, 64, 200, 1000, 4096, 40000, 70000, 1 << 20}
	bpsChoices      = []uint{1, 100, 4096, 1 << 20}
)

// OptProfile restricts the option generator.
type OptProfile struct {
	NoMMap      bool    // standard I/O only
	MMapPercent int     // share of mmap cases when allowed (default 25)
	FileSizes   []int64 // override
	Syncs       []byte  // allowed sync strategies (nil = all three)
	OddDirs     bool    // the history may live in an oddly named directory / next to foreign files (see Opt.OddDir)
}

// GenOpt draws a configuration. Only documented/accepted values are produced:
// ShardNum > 0, valid index types, BytesPerSync > 0 with Threshold.
func GenOpt(t *rapid.T, label string, p OptProfile) Opt {
	o := Opt{}
	o.Index = int8(1 + U(t, 3, label+".index"))
	o.Shards = Pick(t, shardChoices, label+".shards")
	if !p.NoMMap {
		pc := p.MMapPercent
		if pc == 0 {
			pc = 25
		}
		if Pct(t, pc, label+".mmap") {
			o.IO = 1
		}
	}
	fs := fileSizeChoices
	if len(p.FileSizes) > 0 {
		fs = p.FileSizes
	}
	o.FileSize = Pick(t, fs, label+".fileSize")
	syncs := p.Syncs
	if len(syncs) == 0 {
		syncs = []byte{0, 1, 2}
	}
	o.Sync = Pick(t, syncs, label+".sync")
	o.BytesPerSync = Pick(t, bpsChoices, label+".bps")
	o.Slash = Pct(t, 8, label+".slash")
	if p.OddDirs {
		o.OddDir = Pct(t, 6, label+".odddir")
		o.Sidecar = Pct(t, 8, label+".sidecar")
		if Pct(t, 10, label+".spelling") {
			o.Spelling = 1 + U(t, 2, label+".spellingkind")
		}
	}
	return o
}
