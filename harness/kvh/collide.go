package kvh

import (
	"encoding/binary"
	"math/bits"

	"github.com/cespare/xxhash"
)

// XXH64 is not collision resistant: for inputs of two 32-byte stripes the
// first lane of the second stripe can be solved so that it cancels a change
// made to the first lane of the first stripe. The engine buckets staged batch
// records by xxhash.Sum64(key); only true 64-bit collisions reach the code
// that tells two keys of one bucket apart, so the key pools contain such pairs.

var (
	xxPrime1 uint64 = 11400714785074694791
	xxPrime2 uint64 = 14029467366897019727
)

func xxRound(acc, input uint64) uint64 {
	acc += input * xxPrime2
	acc = bits.RotateLeft64(acc, 31)
	acc *= xxPrime1
	return acc
}

func inv64(a uint64) uint64 {
	x := a
	for i := 0; i < 6; i++ {
		x *= 2 - a*x
	}
	return x
}

// CollidingKeys returns two distinct 64-byte keys with the same xxhash64 (nil, nil if the construction fails).
func CollidingKeys(tag byte) ([]byte, []byte) {
	a := make([]byte, 64)
	for i := range a {
		a[i] = byte('a' + (i+int(tag))%26)
	}
	a[0] = 'X'
	a[1] = tag
	b := append([]byte(nil), a...)
	b[2] ^= 0x01
	v0 := xxPrime1 + xxPrime2
	target := xxRound(xxRound(v0, binary.LittleEndian.Uint64(a[0:8])), binary.LittleEndian.Uint64(a[32:40]))
	mid := xxRound(v0, binary.LittleEndian.Uint64(b[0:8]))
	pre := bits.RotateLeft64(target*inv64(xxPrime1), -31)
	lane := (pre - mid) * inv64(xxPrime2)
	binary.LittleEndian.PutUint64(b[32:40], lane)
	if string(a) == string(b) || xxhash.Sum64(a) != xxhash.Sum64(b) {
		return nil, nil
	}
	return a, b
}
