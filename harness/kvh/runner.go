package kvh

import (
	"bytes"
	"encoding/json"
	"errors"
	"fmt"
	"os"
	"path/filepath"
	"runtime/debug"
	"sort"
	"strings"

	kv "github.com/XiXi-2024/xixi-kv"
)

// Op is one concrete operation of a history. Keys are raw bytes (base64 in
// JSON); value bytes are regenerated from (VSeed, VLen).
type Op struct {
	K     string   `json:"k"`
	Key   []byte   `json:"key,omitempty"`
	VLen  int      `json:"vlen,omitempty"`
	VSeed uint64   `json:"vseed,omitempty"`
	Sync  bool     `json:"sync,omitempty"`
	Ops   []Op     `json:"ops,omitempty"`
	Opt   *Opt     `json:"opt,omitempty"`
	N     int      `json:"n,omitempty"`
	Which string   `json:"which,omitempty"`
	Race  []RaceOp `json:"race,omitempty"`
	Post  []string `json:"post,omitempty"`
	Iter  *IterOp  `json:"iter,omitempty"`
	OptN  []Opt    `json:"optN,omitempty"`  // reopen options of the lock-step followers (C14)
	Reuse bool     `json:"reuse,omitempty"` // backup: into the directory of an earlier backup, if every file in it will be overwritten
	// PrefixDst (backup, once per history): the destination is a sibling whose path is a string prefix of the source
	// path ("…/store-live" backed up into "…/store"); Twin: the put writes a key exactly as long as the key the harness
	// writes into opened backups (so that source and copy grow by the same number of bytes)
	PrefixDst bool `json:"prefixDst,omitempty"`
	Nested    bool `json:"nested,omitempty"` // backup: into a fresh sub-directory of the data directory itself
	// Mutate (fold): the callback overwrites the key and the value it is handed, in place, after looking at them -
	// Fold's documentation says that changes to the items are not carried into the database
	Mutate bool `json:"mutate,omitempty"`
	Twin   int  `json:"twin,omitempty"`
}

// RaceOp is a write executed from inside Merge's scan loop, at its At-th
// scanned record.
type RaceOp struct {
	At int `json:"at"`
	Op Op  `json:"op"`
	// Late: the write is issued while the At-th scanned record is being rewritten - after Merge's liveness
	// check of that record, right before its copy is written into the merge directory - and goes to the key
	// of that very record (Op.Key is overwritten with it when the race fires)
	Late bool `json:"late,omitempty"`
}

// IterOp describes one iterator session.
type IterOp struct {
	Reverse bool       `json:"reverse,omitempty"`
	Prefix  []byte     `json:"prefix,omitempty"`
	Calls   []IterCall `json:"calls"`
	// Backward: Seeks to targets behind the cursor are issued too. Their result is not specified (C10 leaves it
	// open), so nothing is compared with the reference cursor from there to the next Rewind; the engine's answers
	// only go into the transcript (C14 compares transcripts of configurations with equal shard counts).
	Backward bool `json:"backward,omitempty"`
}

type IterCall struct {
	C   string `json:"c"` // rewind seek next check write
	Key []byte `json:"key,omitempty"`
	Op  *Op    `json:"op,omitempty"` // write interleaved after creation
}

// Case is the replayable description of one executed history.
type Case struct {
	Property string `json:"property"`
	Kind     string `json:"kind"`
	Opt      Opt    `json:"options"`
	Ops      []Op   `json:"ops"`
	Note     string `json:"note,omitempty"`
	// property specific extras
	Opts  []Opt          `json:"configs,omitempty"`
	Crash *CrashSpec     `json:"crash,omitempty"`
	Extra map[string]any `json:"extra,omitempty"`
}

// CrashSpec pins one crash image of a workload.
type CrashSpec struct {
	Event int              `json:"event"`
	Cuts  map[string]int64 `json:"cuts,omitempty"`
	Level []int            `json:"levels,omitempty"`
}

// Fail is an oracle failure.
type Fail struct {
	Sig string
	Msg string
}

func (f *Fail) Error() string { return f.Sig + ": " + f.Msg }

func failf(sig, format string, a ...any) *Fail {
	return &Fail{Sig: sig, Msg: fmt.Sprintf(format, a...)}
}

// ErrName maps an error to a stable name (exported sentinels only).
func ErrName(err error) string {
	switch {
	case err == nil:
		return "ok"
	case errors.Is(err, kv.ErrKeyNotFound):
		return "ErrKeyNotFound"
	case errors.Is(err, kv.ErrKeyIsEmpty):
		return "ErrKeyIsEmpty"
	case errors.Is(err, kv.ErrBatchCommitted):
		return "ErrBatchCommitted"
	case errors.Is(err, kv.ErrIndexUpdateFailed):
		return "ErrIndexUpdateFailed"
	case errors.Is(err, kv.ErrDataFileNotFound):
		return "ErrDataFileNotFound"
	case errors.Is(err, kv.ErrDataDirectoryCorrupted):
		return "ErrDataDirectoryCorrupted"
	case errors.Is(err, kv.ErrMergeIsProgress):
		return "ErrMergeIsProgress"
	case errors.Is(err, kv.ErrDatabaseIsUsing):
		return "ErrDatabaseIsUsing"
	case errors.Is(err, kv.ErrMergeRatioUnreached):
		return "ErrMergeRatioUnreached"
	case errors.Is(err, kv.ErrNoEnoughSpaceForMerge):
		return "ErrNoEnoughSpaceForMerge"
	case errors.Is(err, kv.ErrMergeFileIDConflict):
		return "ErrMergeFileIDConflict"
	}
	return "other:" + err.Error()
}

// Features are measured (never assumed) properties of an executed history.
type Features struct {
	Muts                                              int
	Puts, Dels                                        int
	Rewrites                                          int // key written twice or deleted after being written
	Rotations                                         int
	BigValue                                          int // value longer than one block
	NearBoundary                                      int // a write left the file end within 8 bytes of a block boundary
	TailPad                                           int // a write started in the last 7 bytes of a block
	OverLimit                                         int // record larger than DataFileSize
	Batches                                           int
	BatchPlainSame                                    int // key written both by a batch and plainly
	Merges                                            int
	MergeOK                                           int
	MergeAfterDel                                     int
	Reopens                                           int
	ReopenAfter                                       map[string]int
	EmptyKeyOps                                       int
	LongKey                                           int
	Enumerations                                      int
	FoldWrites                                        int // writes issued from inside a Fold callback
	Steps                                             int
	BGetRotated                                       int // Batch.Get served from a rotated (older) file
	BGetActive                                        int // Batch.Get served from the database, active file
	BGetStaged                                        int
	BatchRepeat                                       int // batch touching one key more than once
	BPutAfterDel                                      int // Batch.Put of a key the same batch deleted before
	MidBatchFlush                                     int // the batch caused a rotation before its Commit returned
	PostCommit                                        int
	EmptyBatch                                        int
	IterSessions                                      int
	HintMerges, MergeAdopted, MergeAdoptedOverGarbage int
	C13Rot, C13Thr, C13SyncBatch                      int
	Tears                                             int
	Kills                                             int // restarts after a process death (unflushed tails inherited)
	Backups                                           int
	BackupRechecks                                    int
	BackupReuse                                       int // backups taken into the directory of an earlier backup
	BackupWithHint                                    int
	WritesAfterBackup                                 int
	IterNonTrivial                                    int // sessions over keys in >= 2 shards with a Seek or a Rewind after Next
	IterLabels                                        map[string]int
	dirtySince                                        map[string]bool // events since last reopen
}

// Runner executes a history against the real engine and a reference map.
type Runner struct {
	Env      *Env
	Stats    *Stats
	Base     string
	Dir      string
	Opt      Opt
	DB       *kv.DB
	Model    map[string][]byte
	hugeDone bool
	// Queued holds ops the generator has already decided on (multi-op idioms)
	Queued []Op
	Probe  map[string]struct{} // keys that must be reported not-found
	Ops    []Op
	Ctr    uint64
	IO     *IOLog
	F      Features

	batchKeys map[string]bool
	plainKeys map[string]bool
	keyFile   map[string]int // number of data files when the key's live record was written
	everDel   bool

	// optional behaviours
	Transcript *[]string                       // C14: results of every call
	Poison     *PoisonBufs                     // C15: shared caller buffers
	AfterStep  []func(r *Runner, op *Op) *Fail // extra oracles (C13, C17 …)
	NoDump     bool                            // skip the per-step dump (lock-step followers)
	BeforeStep []func(r *Runner, op *Op)
	OnClosed   func(r *Runner) *Fail // called between Close and Open of a reopen (C13)
	OnKilled   func(r *Runner)       // called between the death of the process and the restart of a kill op (C13)
	bgets      int                   // Batch.Get results seen so far
	staleBatch *kv.Batch             // a committed batch whose handle the "caller" kept
	// NoHuge: no value of more than a mebibyte is generated (the crash engine keeps the bytes of every file at every
	// frozen instant in memory: a 2 MiB record times hundreds of instants would look like an unbounded allocation)
	NoHuge        bool
	prefixDstUsed bool
	foldMutates   bool
	spelling      int                   // how the directory is spelled in every Open of this history (Opt.Spelling of the first configuration)
	OnMergeResult func(err error) *Fail // judge the return value of Merge (C06, C17)
	LastMergeErr  error
	kept          []*keptBackup
	journal       *os.File
	journalPath   string
	sinceFull     int
	lastIter      *IterFeatures
	lastFileNum   int
	closed        bool
}

// NewRunner opens a fresh database under a new scratch directory.
func NewRunner(property string, opt Opt, io *IOLog) (*Runner, *Fail) {
	e := GetEnv()
	r := &Runner{
		Env: e, Stats: StatsFor(property), Opt: opt, IO: io,
		Model: map[string][]byte{}, Probe: map[string]struct{}{},
		batchKeys: map[string]bool{}, plainKeys: map[string]bool{}, keyFile: map[string]int{},
	}
	r.F.ReopenAfter = map[string]int{}
	r.F.dirtySince = map[string]bool{}
	r.Base = e.NewDir(strings.ToLower(property))
	r.Dir = filepath.Join(r.Base, opt.DirName())
	r.openJournal(property, opt)
	opt.PrepareDir(r.Dir)
	r.spelling = opt.Spelling
	if opt.Spelling > 0 {
		r.Stats.Label(fmt.Sprintf("directory-named-through-%s", []string{"", "a-path-that-is-not-clean", "a-symbolic-link"}[opt.Spelling]))
	}
	if opt.OddDir {
		r.Stats.Label("directory-name-with-glob-metacharacters")
	}
	if opt.Sidecar {
		r.Stats.Label("foreign-files-in-the-data-directory")
	}
	if f := r.open(opt); f != nil {
		r.Cleanup()
		return nil, f
	}
	return r, nil
}

func (r *Runner) open(opt Opt) (fail *Fail) {
	defer func() {
		if p := recover(); p != nil {
			fail = failf("open-panic", "Open panicked: %v\n%s", p, trimStack(debug.Stack()))
		}
	}()
	opt.Spelling = r.spelling // one spelling of the directory per history
	db, err := kv.Open(opt.KV(r.Dir))
	if err != nil {
		return failf("open-error", "Open(%s) failed: %v", opt, err)
	}
	r.DB = db
	r.staleBatch = nil
	r.Opt = opt
	r.closed = false
	r.lastFileNum = db.Stat().DataFileNum
	return nil
}

// The journal makes the case in flight survive an unrecoverable death of the
// process (Go runtime fatal error, uncaught signal): a header line and one
// line per op, written before the op executes. The driver turns the journal of
// a dead worker into the replay artefact.
func (r *Runner) openJournal(property string, opt Opt) {
	e := r.Env
	path := filepath.Join(e.Out, fmt.Sprintf("current-%s-%d.jsonl", property, e.Shard))
	f, err := os.Create(path)
	if err != nil {
		return
	}
	r.journal, r.journalPath = f, path
	hdr, _ := json.Marshal(map[string]any{"property": property, "kind": "history", "options": opt})
	_, _ = f.Write(append(hdr, '\n'))
}

func (r *Runner) journalOp(op *Op) {
	if r.journal == nil {
		return
	}
	b, err := json.Marshal(op)
	if err != nil {
		return
	}
	_, _ = r.journal.Write(append(b, '\n'))
}

func (r *Runner) closeJournal() {
	if r.journal != nil {
		_ = r.journal.Close()
		_ = os.Remove(r.journalPath)
		r.journal = nil
	}
}

// Cleanup closes the database (ignoring errors) and removes the scratch dir.
func (r *Runner) Cleanup() {
	r.closeJournal()
	if r.DB != nil && !r.closed {
		func() {
			defer func() { _ = recover() }()
			_ = r.DB.Close()
		}()
	}
	if r.IO != nil {
		r.IO.Forget(r.Base)
	}
	_ = os.RemoveAll(r.Base)
}

func trimStack(b []byte) string {
	s := string(b)
	if len(s) > 3000 {
		s = s[:3000] + "…"
	}
	return s
}

// PoisonBufs are the single key and value buffers a C15 caller reuses.
type PoisonBufs struct {
	K, V     []byte
	kn, vn   int
	shadowK  []byte
	shadowV  []byte
	Returned []retained
	Reuses   int
	cap3     bool
}

type retained struct {
	got  []byte
	copy []byte
	what string
}

func NewPoisonBufs() *PoisonBufs {
	p := &PoisonBufs{K: make([]byte, 40000), V: make([]byte, 140000)}
	for i := range p.K {
		p.K[i] = 0xA5
	}
	for i := range p.V {
		p.V[i] = 0x5A
	}
	p.shadowK = append([]byte(nil), p.K...)
	p.shadowV = append([]byte(nil), p.V...)
	return p
}

// in returns the slices to pass to the engine for (key, val).
func (r *Runner) in(key, val []byte) ([]byte, []byte) {
	p := r.Poison
	if p == nil {
		return append([]byte(nil), key...), append([]byte(nil), val...)
	}
	p.Reuses++
	p.cap3 = !p.cap3
	copy(p.K, key)
	copy(p.shadowK, key)
	p.kn = len(key)
	var k, v []byte
	if p.cap3 {
		k = p.K[:len(key):len(key)]
	} else {
		k = p.K[:len(key)]
	}
	if val != nil {
		if len(val)+64 > len(p.V) {
			// the caller's one value buffer grows (a new, larger array, as append would give it)
			p.V = make([]byte, len(val)+4096)
			for i := range p.V {
				p.V[i] = 0x5A
			}
			p.shadowV = append([]byte(nil), p.V...)
		}
		copy(p.V, val)
		copy(p.shadowV, val)
		p.vn = len(val)
		if p.cap3 {
			v = p.V[:len(val):len(val)]
		} else {
			v = p.V[:len(val)]
		}
	}
	return k, v
}

// after is called right after an engine call returned: the caller scribbles
// over everything it passed in.
func (r *Runner) after() {
	p := r.Poison
	if p == nil {
		return
	}
	for i := 0; i < p.kn+8 && i < len(p.K); i++ {
		p.K[i] = 0xEE
		p.shadowK[i] = 0xEE
	}
	for i := 0; i < p.vn+8 && i < len(p.V); i++ {
		p.V[i] = 0xDD
		p.shadowV[i] = 0xDD
	}
	p.kn, p.vn = 0, 0
}

// checkPoison verifies that the engine never wrote into caller memory and
// that slices returned earlier by Get still hold what they held.
func (r *Runner) checkPoison() *Fail {
	p := r.Poison
	if p == nil {
		return nil
	}
	if !bytes.Equal(p.K, p.shadowK) {
		return failf("caller-key-buffer-modified", "the engine wrote into the caller's key buffer (first diff at %d)", firstDiff(p.K, p.shadowK))
	}
	if !bytes.Equal(p.V, p.shadowV) {
		return failf("caller-value-buffer-modified", "the engine wrote into the caller's value buffer (first diff at %d)", firstDiff(p.V, p.shadowV))
	}
	for _, rt := range p.Returned {
		if !bytes.Equal(rt.got, rt.copy) {
			return failf("returned-slice-changed", "a slice returned by %s changed afterwards (first diff at %d of %d)", rt.what, firstDiff(rt.got, rt.copy), len(rt.copy))
		}
	}
	return nil
}

func firstDiff(a, b []byte) int {
	n := len(a)
	if len(b) < n {
		n = len(b)
	}
	for i := 0; i < n; i++ {
		if a[i] != b[i] {
			return i
		}
	}
	return n
}

func (r *Runner) retain(got []byte, key []byte) {
	r.retainAs(got, fmt.Sprintf("Get(%q)", abbrevKeys([]string{string(key)})[0]))
}

func (r *Runner) retainAs(got []byte, what string) {
	if r.Poison == nil || len(got) == 0 {
		return
	}
	if len(r.Poison.Returned) >= 24 {
		r.Poison.Returned = r.Poison.Returned[1:]
	}
	r.Poison.Returned = append(r.Poison.Returned, retained{got: got, copy: append([]byte(nil), got...), what: what})
}

func (r *Runner) tr(format string, a ...any) {
	if r.Transcript != nil {
		*r.Transcript = append(*r.Transcript, fmt.Sprintf(format, a...))
	}
}

// NextSeed returns a fresh value seed.
func (r *Runner) NextSeed() uint64 {
	r.Ctr++
	return r.Ctr
}

// ActiveOffset returns the logical size of the newest data file (steering and
// label measurement only).
func (r *Runner) ActiveOffset() int64 {
	if r.IO == nil {
		return 0
	}
	_, n := r.IO.ActiveData(r.Dir)
	return n
}

// Step executes one concrete op, records it and checks the oracle.
func (r *Runner) Step(op Op) (fail *Fail) {
	r.Ops = append(r.Ops, op)
	r.F.Steps++
	r.journalOp(&op)
	// a SIGBUS/SIGSEGV from a stale mapping becomes a recoverable panic of this goroutine
	debug.SetPanicOnFault(true)
	defer func() {
		if p := recover(); p != nil {
			fail = failf("panic", "op %s panicked: %v\n%s", op.K, p, trimStack(debug.Stack()))
		}
	}()
	for _, fn := range r.BeforeStep {
		fn(r, &op)
	}
	if r.Poison != nil {
		// stale contents of pooled buffers must not make a read beyond the filled length look right
		PoisonPools(2)
	}
	touched, global, f := r.exec(&op)
	if f != nil {
		return f
	}
	if f := r.checkPoison(); f != nil {
		return f
	}
	// rotation detection (measured)
	fn := r.DB.Stat().DataFileNum
	if fn > r.lastFileNum {
		r.F.Rotations += fn - r.lastFileNum
		r.F.dirtySince["rotation"] = true
		global = true
	}
	r.lastFileNum = fn
	if !r.NoDump {
		r.sinceFull++
		full := global || r.sinceFull >= 8
		if full {
			r.sinceFull = 0
		}
		if f := r.CheckDump(full, touched); f != nil {
			return f
		}
	}
	for _, fn := range r.AfterStep {
		if f := fn(r, &op); f != nil {
			return f
		}
	}
	return nil
}

// Finish runs the final full comparison.
func (r *Runner) Finish() *Fail {
	if r.closed || r.NoDump {
		return nil
	}
	if f := r.guard("final-dump", func() *Fail { return r.CheckDump(true, nil) }); f != nil {
		return f
	}
	return r.guard("backup-recheck", func() *Fail { return r.recheckBackups() })
}

func (r *Runner) guard(what string, fn func() *Fail) (fail *Fail) {
	defer func() {
		if p := recover(); p != nil {
			fail = failf("panic", "%s panicked: %v\n%s", what, p, trimStack(debug.Stack()))
		}
	}()
	return fn()
}

func (r *Runner) modelPut(key, val []byte, batch bool) {
	ks := string(key)
	if _, ok := r.Model[ks]; ok {
		r.F.Rewrites++
	}
	r.Model[ks] = val
	delete(r.Probe, ks)
	r.F.Puts++
	if r.DB != nil {
		r.keyFile[ks] = r.DB.Stat().DataFileNum
	}
	if batch {
		r.batchKeys[ks] = true
		if r.plainKeys[ks] {
			r.F.BatchPlainSame++
		}
	} else {
		r.plainKeys[ks] = true
		if r.batchKeys[ks] {
			r.F.BatchPlainSame++
		}
	}
	if len(key) > 64 {
		r.F.LongKey++
	}
}

func (r *Runner) modelDel(key []byte) {
	ks := string(key)
	if _, ok := r.Model[ks]; ok {
		r.F.Rewrites++
		r.everDel = true
		r.F.dirtySince["delete"] = true
	}
	delete(r.Model, ks)
	r.Probe[ks] = struct{}{}
	r.F.Dels++
}

func (r *Runner) measureWrite(before int64, vlen int, klen int) {
	if r.IO == nil {
		return
	}
	after := r.ActiveOffset()
	res := after % BlockSize
	if after > 0 && (res <= 8 || res >= BlockSize-8) {
		r.F.NearBoundary++
	}
	bres := before % BlockSize
	if bres+ChunkHeader >= BlockSize && after > before {
		r.F.TailPad++
	}
	if vlen > BlockSize {
		r.F.BigValue++
	}
	if int64(EncLen(klen, vlen, 0)) > r.Opt.FileSize {
		r.F.OverLimit++
	}
}

// exec runs the op against the engine and the model. It returns the keys it
// touched and whether a global event happened (full dump wanted).
func (r *Runner) exec(op *Op) (touched [][]byte, global bool, fail *Fail) {
	switch op.K {
	case "put":
		val := OpValue(op.VSeed, op.VLen)
		before := r.ActiveOffset()
		k, v := r.in(op.Key, val)
		err := r.DB.Put(k, v)
		r.after()
		r.tr("put %s", ErrName(err))
		if err != nil {
			return nil, false, failf("put-error", "Put(%q, %d bytes) = %v", op.Key, op.VLen, err)
		}
		r.modelPut(op.Key, val, false)
		r.F.Muts++
		if r.F.Backups > 0 {
			r.F.WritesAfterBackup++
		}
		r.measureWrite(before, op.VLen, len(op.Key))
		return [][]byte{op.Key}, false, nil

	case "del":
		k, _ := r.in(op.Key, nil)
		err := r.DB.Delete(k)
		r.after()
		r.tr("del %s", ErrName(err))
		if err != nil {
			return nil, false, failf("delete-error", "Delete(%q) = %v", op.Key, err)
		}
		r.modelDel(op.Key)
		r.F.Muts++
		return [][]byte{op.Key}, false, nil

	case "get":
		return [][]byte{op.Key}, false, r.checkGet(op.Key, true)

	case "emptykey":
		r.F.EmptyKeyOps++
		var err error
		switch op.Which {
		case "put":
			err = r.DB.Put(nil, []byte("x"))
		case "put0":
			err = r.DB.Put([]byte{}, []byte("x"))
		case "get":
			_, err = r.DB.Get(nil)
		case "del":
			err = r.DB.Delete([]byte{})
		default:
			err = r.DB.Put(nil, nil)
		}
		r.tr("emptykey %s %s", op.Which, ErrName(err))
		if !errors.Is(err, kv.ErrKeyIsEmpty) {
			return nil, false, failf("empty-key-accepted", "%s with an empty key returned %v, want ErrKeyIsEmpty", op.Which, err)
		}
		return nil, false, nil

	case "batch":
		return r.execBatch(op)

	case "sync":
		err := r.DB.Sync()
		r.tr("sync %s", ErrName(err))
		if err != nil {
			return nil, false, failf("sync-error", "Sync() = %v", err)
		}
		return nil, false, nil

	case "merge":
		return r.execMerge(op)

	case "reopen":
		return nil, true, r.execReopen(op)

	case "listkeys":
		keys := r.DB.ListKeys()
		r.F.Enumerations++
		if r.Transcript != nil {
			r.tr("listkeys %s", keysDigest(keys))
		}
		return nil, false, r.checkKeyList("ListKeys", keys, true)

	case "fold":
		var written [][]byte
		for i := range op.Race {
			written = append(written, op.Race[i].Op.Key)
		}
		r.foldMutates = op.Mutate
		f := r.checkFold(op.N, op.Race)
		r.foldMutates = false
		return written, false, f

	case "stat":
		st := r.DB.Stat()
		r.tr("stat keys=%d", st.KeyNum)
		if st.KeyNum != len(r.Model) {
			return nil, false, failf("stat-keynum", "Stat().KeyNum = %d, model has %d keys", st.KeyNum, len(r.Model))
		}
		return nil, false, nil

	case "iter":
		return nil, false, r.execIter(op)

	case "backup":
		return nil, true, r.execBackup(op)

	case "tear":
		return nil, true, r.execTear(op)

	case "kill":
		return nil, true, r.execKill(op)
	}
	return nil, false, failf("harness-bad-op", "unknown op kind %q", op.K)
}

func keysDigest(keys [][]byte) string {
	var sb strings.Builder
	for i, k := range keys {
		if i > 0 {
			sb.WriteByte(',')
		}
		if len(k) > 16 {
			fmt.Fprintf(&sb, "%x…%d", k[:8], len(k))
		} else {
			fmt.Fprintf(&sb, "%x", k)
		}
	}
	return sb.String()
}

func sameBytes(a, b []byte) bool {
	if len(a) == 0 && len(b) == 0 {
		return true
	}
	return bytes.Equal(a, b)
}

// checkGet compares DB.Get(key) with the model.
func (r *Runner) checkGet(key []byte, transcript bool) *Fail {
	k, _ := r.in(key, nil)
	got, err := r.DB.Get(k)
	r.after()
	want, ok := r.Model[string(key)]
	if transcript {
		if err != nil {
			r.tr("get %s", ErrName(err))
		} else {
			r.tr("get %s", ValueDigest(got))
		}
	}
	if ok {
		if err != nil {
			return failf("get-live-key-error", "Get(%q) = error %v, want %s", key, err, ValueDigest(want))
		}
		if !sameBytes(got, want) {
			return failf("get-wrong-value", "Get(%q) = %s (len %d), want %s (len %d)", key, ValueDigest(got), len(got), ValueDigest(want), len(want))
		}
		r.retain(got, key)
		return nil
	}
	if err == nil {
		return failf("get-absent-key-found", "Get(%q) = %s, want ErrKeyNotFound (key deleted or never written)", key, ValueDigest(got))
	}
	if !errors.Is(err, kv.ErrKeyNotFound) {
		return failf("get-absent-key-error", "Get(%q) = error %v, want ErrKeyNotFound", key, err)
	}
	return nil
}

func (r *Runner) sortedModelKeys() []string {
	ks := make([]string, 0, len(r.Model))
	for k := range r.Model {
		ks = append(ks, k)
	}
	sort.Strings(ks)
	return ks
}

// checkKeyList compares a key enumeration with the model's key set. With
// ordered=true the enumeration must also be ascending.
func (r *Runner) checkKeyList(what string, keys [][]byte, ordered bool) *Fail {
	want := r.sortedModelKeys()
	got := make([]string, len(keys))
	for i, k := range keys {
		got[i] = string(k)
	}
	for _, k := range keys {
		ScribbleKey(k) // a caller overwriting or appending to a key it was handed reaches neither the other keys nor the index
	}
	if ordered {
		if !sort.StringsAreSorted(got) {
			return failf("enumeration-unsorted", "%s is not in ascending order: %q", what, got)
		}
	} else {
		sort.Strings(got)
	}
	if len(got) != len(want) {
		return failf("enumeration-keyset", "%s has %d keys, model has %d: got %q want %q", what, len(got), len(want), abbrevKeys(got), abbrevKeys(want))
	}
	for i := range got {
		if got[i] != want[i] {
			return failf("enumeration-keyset", "%s differs from the model at %d: got %q want %q", what, i, abbrevKeys(got), abbrevKeys(want))
		}
	}
	return nil
}

func abbrevKeys(ks []string) []string {
	out := make([]string, len(ks))
	for i, k := range ks {
		if len(k) > 24 {
			out[i] = fmt.Sprintf("%s…(%d)", k[:12], len(k))
		} else {
			out[i] = k
		}
	}
	return out
}

// checkFold runs Fold and compares the visited pairs with the state the database had when Fold was called
// (Fold walks a snapshot: writes issued from inside the callback - writes[i].At is the number of pairs visited
// before the write - must not disturb it, C10).
func (r *Runner) checkFold(stopAfter int, writes []RaceOp) *Fail {
	var gotK []string
	var bad *Fail
	n := 0
	snap := r.Model
	if len(writes) > 0 {
		snap = make(map[string][]byte, len(r.Model))
		for k, v := range r.Model {
			snap[k] = v
		}
	}
	want := make([]string, 0, len(snap))
	for k := range snap {
		want = append(want, k)
	}
	sort.Strings(want)
	var keptK [][]byte
	err := r.DB.Fold(func(key, value []byte) bool {
		n++
		gotK = append(gotK, string(key))
		if r.foldMutates {
			defer func(k, v []byte) {
				for i := range k {
					k[i] ^= 0x5a
				}
				for i := range v {
					v[i] ^= 0x5a
				}
			}(key, value)
			r.Stats.Label("fold-callback-overwrites-its-arguments")
		} else {
			keptK = append(keptK, key) // "collect now, process later": looked at again after Fold has returned
		}
		ScribbleBehind(key)
		wv, ok := snap[string(key)]
		if !ok {
			bad = failf("fold-unknown-key", "Fold visited key %q which the database did not hold when Fold was called", key)
			return false
		}
		if !sameBytes(value, wv) {
			bad = failf("fold-wrong-value", "Fold passed %s for key %q, want %s (the value at the time of the Fold call)", ValueDigest(value), key, ValueDigest(wv))
			return false
		}
		for i := range writes {
			if writes[i].At != n-1 {
				continue
			}
			w := writes[i].Op
			if w.K != "put" && w.K != "del" {
				continue
			}
			if _, _, f := r.exec(&w); f != nil {
				bad = f
				return false
			}
			r.F.FoldWrites++
		}
		if stopAfter > 0 && n >= stopAfter {
			return false
		}
		return true
	})
	r.F.Enumerations++
	if r.Transcript != nil {
		r.tr("fold %s n=%d %s", ErrName(err), n, strings.Join(abbrevKeys(gotK), ","))
	}
	if bad != nil {
		return bad
	}
	for i, k := range keptK {
		if i < len(gotK) && string(k) != gotK[i] {
			return failf("fold-key-changed-after-the-callback", "the key slice handed to the Fold callback at position %d read %q then and reads %q after Fold has returned (keys kept by the callback must stay what they were)", i, gotK[i], k)
		}
	}
	if err != nil {
		return failf("fold-error", "Fold returned %v", err)
	}
	expect := len(want)
	if stopAfter > 0 && stopAfter < expect {
		expect = stopAfter
	}
	if n != expect {
		return failf("fold-count", "Fold visited %d pairs, want %d (stop after %d, %d keys at the time of the call)", n, expect, stopAfter, len(want))
	}
	for i := 0; i < n; i++ {
		if gotK[i] != want[i] {
			return failf("fold-order", "Fold visited %q at position %d, want %q", gotK[i], i, want[i])
		}
	}
	return nil
}

// CheckDump compares the engine's visible state with the model.
func (r *Runner) CheckDump(full bool, touched [][]byte) *Fail {
	keys := r.DB.ListKeys()
	if f := r.checkKeyList("ListKeys", keys, false); f != nil {
		return f
	}
	if n := r.DB.Stat().KeyNum; n != len(r.Model) {
		return failf("stat-keynum", "Stat().KeyNum = %d, model has %d keys", n, len(r.Model))
	}
	seen := map[string]bool{}
	for _, k := range touched {
		seen[string(k)] = true
		if f := r.checkGet(k, false); f != nil {
			return f
		}
	}
	for _, ks := range r.sortedModelKeys() {
		if seen[ks] {
			continue
		}
		if !full && len(r.Model[ks]) > 4096 {
			continue
		}
		if f := r.checkGet([]byte(ks), false); f != nil {
			return f
		}
	}
	if full {
		pk := make([]string, 0, len(r.Probe))
		for k := range r.Probe {
			pk = append(pk, k)
		}
		sort.Strings(pk)
		for _, ks := range pk {
			if seen[ks] {
				continue
			}
			if f := r.checkGet([]byte(ks), false); f != nil {
				return f
			}
		}
		if f := r.checkFoldSilently(); f != nil {
			return f
		}
	}
	return nil
}

func (r *Runner) checkFoldSilently() *Fail {
	tr := r.Transcript
	r.Transcript = nil
	defer func() { r.Transcript = tr }()
	en := r.F.Enumerations
	f := r.checkFold(0, nil)
	r.F.Enumerations = en
	return f
}

func (r *Runner) execBatch(op *Op) (touched [][]byte, global bool, fail *Fail) {
	filesBefore := r.DB.Stat().DataFileNum // before NewBatch: the batch holds the database lock
	before := r.ActiveOffset()
	// "an iterator drives a batch" (purge by prefix: for ; it.Valid(); it.Next() { b.Delete(it.Key()) }): an iterator
	// created before the batch is moved while the batch is open. Valid/Key/Next work on the iterator's snapshot, so
	// they neither wait for the lock the batch holds nor see what the batch stages.
	var drv *kv.Iterator
	var drvKeys []string
	drvPos := 0
	if len(op.Ops)%3 == 1 {
		drvKeys = r.sortedModelKeys()
		drv = r.DB.NewIterator(kv.IteratorOptions{})
		defer drv.Close()
		r.Stats.Label("iterator-created-before-a-batch-moved-while-the-batch-is-open")
	}
	moveDrv := func() *Fail {
		if drv == nil {
			return nil
		}
		v := drv.Valid()
		if v != (drvPos < len(drvKeys)) {
			return failf("iter-valid", "an iterator created before NewBatch, moved while the batch is open: Valid() = %v at position %d of %d", v, drvPos, len(drvKeys))
		}
		if v {
			if k := drv.Key(); string(k) != drvKeys[drvPos] {
				return failf("iter-key", "an iterator created before NewBatch, moved while the batch is open: Key() = %q at position %d, the snapshot holds %q there", k, drvPos, drvKeys[drvPos])
			}
			drv.Next()
			drvPos++
		}
		return nil
	}
	b := r.DB.NewBatch(kv.BatchOptions{Sync: op.Sync})
	committed := false
	if st := r.staleBatch; st != nil {
		// a handle kept beyond its Commit (defer b.Commit() next to an explicit Commit, a field still pointing at it) and
		// touched while a LATER batch is open: it must still reject every use and must not reach into the new batch
		r.staleBatch = nil
		err1 := st.Put([]byte("zz-stale"), []byte("1"))
		_, err2 := st.Get([]byte("zz-stale"))
		err3 := st.Commit()
		r.F.PostCommit++
		r.Stats.Label("committed-batch-touched-while-a-later-batch-is-open")
		if !errors.Is(err1, kv.ErrBatchCommitted) || !errors.Is(err2, kv.ErrBatchCommitted) || !errors.Is(err3, kv.ErrBatchCommitted) {
			func() {
				defer func() { _ = recover() }()
				_ = b.Commit()
			}()
			committed = true
			return nil, true, failf("committed-batch-usable", "a batch committed earlier, touched while a later batch is open: Put = %v, Get = %v, Commit = %v, want ErrBatchCommitted each time", err1, err2, err3)
		}
	}
	defer func() {
		// never leave the database locked behind a failed case
		if !committed {
			func() {
				defer func() { _ = recover() }()
				_ = b.Commit()
			}()
		}
	}()
	overlay := map[string][]byte{} // staged puts
	deleted := map[string]bool{}   // staged deletes
	order := []Op{}
	seenKeys := map[string]int{}
	for i := range op.Ops {
		s := &op.Ops[i]
		if f := moveDrv(); f != nil {
			return nil, true, f
		}
		switch s.K {
		case "bput":
			val := OpValue(s.VSeed, s.VLen)
			k, v := r.in(s.Key, val)
			err := b.Put(k, v)
			r.after()
			r.tr("bput %s", ErrName(err))
			if err != nil {
				return nil, false, failf("batch-put-error", "Batch.Put(%q, %d bytes) = %v", s.Key, s.VLen, err)
			}
			overlay[string(s.Key)] = val
			if deleted[string(s.Key)] {
				r.F.BPutAfterDel++
			}
			delete(deleted, string(s.Key))
			order = append(order, *s)
			seenKeys[string(s.Key)]++
		case "bdel":
			k, _ := r.in(s.Key, nil)
			err := b.Delete(k)
			r.after()
			r.tr("bdel %s", ErrName(err))
			if err != nil {
				return nil, false, failf("batch-delete-error", "Batch.Delete(%q) = %v", s.Key, err)
			}
			delete(overlay, string(s.Key))
			deleted[string(s.Key)] = true
			order = append(order, *s)
			seenKeys[string(s.Key)]++
		case "bget":
			k, _ := r.in(s.Key, nil)
			got, err := b.Get(k)
			r.after()
			if err != nil {
				r.tr("bget %s", ErrName(err))
			} else {
				r.tr("bget %s", ValueDigest(got))
			}
			var want []byte
			present := false
			if v, ok := overlay[string(s.Key)]; ok {
				want, present = v, true
				r.F.BGetStaged++
			} else if !deleted[string(s.Key)] {
				want, present = r.Model[string(s.Key)]
				if present {
					// measured, not assumed: did a rotation happen since the live record was written?
					if r.keyFile[string(s.Key)] < filesBefore {
						r.F.BGetRotated++
					} else {
						r.F.BGetActive++
					}
				}
			}
			if present {
				if err != nil {
					return nil, false, failf("batch-get-error", "Batch.Get(%q) = error %v, want %s", s.Key, err, ValueDigest(want))
				}
				if !sameBytes(got, want) {
					return nil, false, failf("batch-get-wrong-value", "Batch.Get(%q) = %s, want %s", s.Key, ValueDigest(got), ValueDigest(want))
				}
				// the result belongs to the caller: every other one is kept and must stay what it is (later Batch.Puts of
				// the key, the Commit, later Puts), the others the caller edits in place - which must not reach what the batch
				// commits
				r.bgets++
				if r.bgets%2 == 0 {
					r.retainAs(got, fmt.Sprintf("Batch.Get(%q)", abbrevKeys([]string{string(s.Key)})[0]))
				} else {
					for i := range got {
						got[i] ^= 0xFF
					}
				}
			} else if !errors.Is(err, kv.ErrKeyNotFound) {
				if err == nil {
					return nil, false, failf("batch-get-absent-found", "Batch.Get(%q) = %s, want ErrKeyNotFound", s.Key, ValueDigest(got))
				}
				return nil, false, failf("batch-get-absent-error", "Batch.Get(%q) = %v, want ErrKeyNotFound", s.Key, err)
			}
		case "bempty":
			var err error
			switch s.Which {
			case "put":
				err = b.Put(nil, []byte("x"))
			case "del":
				err = b.Delete(nil)
			default:
				_, err = b.Get([]byte{})
			}
			r.tr("bempty %s %s", s.Which, ErrName(err))
			if !errors.Is(err, kv.ErrKeyIsEmpty) {
				return nil, false, failf("empty-key-accepted", "Batch %s with an empty key returned %v, want ErrKeyIsEmpty", s.Which, err)
			}
		default:
			return nil, false, failf("harness-bad-op", "unknown batch op %q", s.K)
		}
	}
	err := b.Commit()
	committed = true
	r.tr("commit %s", ErrName(err))
	if err != nil {
		return nil, false, failf("commit-error", "Commit() = %v", err)
	}
	for _, n := range seenKeys {
		if n > 1 {
			r.F.BatchRepeat++
			break
		}
	}
	if r.DB.Stat().DataFileNum > filesBefore {
		r.F.MidBatchFlush++
	}
	if len(op.Ops) == 0 {
		r.F.EmptyBatch++
	}
	// a batch is one mutation of the model, applied in issue order
	for i := range order {
		s := &order[i]
		if s.K == "bput" {
			r.modelPut(s.Key, OpValue(s.VSeed, s.VLen), true)
			r.measureWrite(before, s.VLen, len(s.Key))
		} else {
			r.modelDel(s.Key)
		}
		touched = append(touched, s.Key)
	}
	if len(order) > 0 {
		r.F.Muts++
		r.F.Batches++
		r.F.dirtySince["batch"] = true
	}
	if len(op.Post) > 0 {
		r.staleBatch = b // touched again when the next batch is open
	}
	// a committed batch rejects further use
	for _, p := range op.Post {
		var err error
		switch p {
		case "put":
			err = b.Put([]byte("zz"), []byte("1"))
		case "del":
			err = b.Delete([]byte("zz"))
		case "get":
			_, err = b.Get([]byte("zz"))
		default:
			continue
		}
		r.tr("post %s %s", p, ErrName(err))
		r.F.PostCommit++
		if !errors.Is(err, kv.ErrBatchCommitted) {
			return nil, true, failf("committed-batch-usable", "%s on a committed batch returned %v, want ErrBatchCommitted", p, err)
		}
	}
	return touched, true, nil
}

func (r *Runner) execMerge(op *Op) (touched [][]byte, global bool, fail *Fail) {
	r.F.Merges++
	if r.everDel {
		r.F.MergeAfterDel++
	}
	var raceFail *Fail
	if len(op.Race) > 0 && r.IO != nil {
		scanned := 0
		var lastScanned []byte
		late := false
		for i := range op.Race {
			late = late || op.Race[i].Late
		}
		if late {
			// the copy of a live record is written into the merge directory after the liveness check of that
			// record: a write to the same key issued right there lands inside Merge's check-then-act window
			prev := r.IO.OnEvent
			mergeDir := r.Dir + "-merge" + string(filepath.Separator)
			fired := map[int]bool{}
			r.IO.SetOnEvent(func(ev Event) {
				if prev != nil {
					prev(ev)
				}
				if ev.Kind != "write" || !strings.HasPrefix(ev.Path, mergeDir) || !strings.HasSuffix(ev.Path, ".data") {
					return
				}
				for i := range op.Race {
					rc := &op.Race[i]
					if !rc.Late || fired[i] || rc.At != scanned-1 || raceFail != nil || len(lastScanned) == 0 {
						continue
					}
					fired[i] = true
					rc.Op.Key = append([]byte(nil), lastScanned...)
					switch rc.Op.K {
					case "put":
						val := OpValue(rc.Op.VSeed, rc.Op.VLen)
						if err := r.DB.Put(append([]byte(nil), rc.Op.Key...), val); err != nil {
							raceFail = failf("put-error", "Put racing with Merge failed: %v", err)
						} else {
							r.modelPut(rc.Op.Key, val, false)
							r.F.Muts++
						}
					case "del":
						if err := r.DB.Delete(append([]byte(nil), rc.Op.Key...)); err != nil {
							raceFail = failf("delete-error", "Delete racing with Merge failed: %v", err)
						} else {
							r.modelDel(rc.Op.Key)
							r.F.Muts++
						}
					}
					touched = append(touched, rc.Op.Key)
					r.Stats.Label("write-to-the-key-being-rewritten-by-merge")
				}
			})
			defer r.IO.SetOnEvent(prev)
		}
		r.IO.OnPoint = func(name string, key []byte) {
			// At < 0: right after the merge rotation released the lock (before the scan starts);
			// At >= 0: at the At-th scanned record
			// At == -2: after the scan, before the hint file and the marker are written
			at := scanned
			if name == "merge.rotated" {
				at = -1
			} else if name == "merge.scanned" {
				at = -2
			} else if name != "merge.scan" {
				return
			}
			if name == "merge.scan" {
				lastScanned = append(lastScanned[:0], key...)
			}
			for i := range op.Race {
				if op.Race[i].At == at && raceFail == nil && !op.Race[i].Late {
					w := op.Race[i].Op
					switch w.K {
					case "put":
						val := OpValue(w.VSeed, w.VLen)
						if err := r.DB.Put(append([]byte(nil), w.Key...), val); err != nil {
							raceFail = failf("put-error", "Put racing with Merge failed: %v", err)
						} else {
							r.modelPut(w.Key, val, false)
							r.F.Muts++
						}
					case "del":
						if err := r.DB.Delete(append([]byte(nil), w.Key...)); err != nil {
							raceFail = failf("delete-error", "Delete racing with Merge failed: %v", err)
						} else {
							r.modelDel(w.Key)
							r.F.Muts++
						}
					case "bput":
						// a one-put batch committed while the merge is under way
						val := OpValue(w.VSeed, w.VLen)
						b := r.DB.NewBatch(kv.DefaultBatchOptions)
						err := b.Put(append([]byte(nil), w.Key...), val)
						if err == nil {
							err = b.Commit()
						}
						if err != nil {
							raceFail = failf("batch-error", "a batch racing with Merge failed: %v", err)
						} else {
							r.modelPut(w.Key, val, true)
							r.F.Muts++
						}
					case "merge":
						// a second Merge while one is running is rejected and leaves the first one alone
						if err := r.DB.Merge(); !errors.Is(err, kv.ErrMergeIsProgress) {
							raceFail = failf("nested-merge-not-rejected", "Merge() called while a merge is scanning returned %v, want ErrMergeIsProgress", err)
						}
						r.Stats.Label("merge-attempt-during-merge")
						continue
					}
					touched = append(touched, w.Key)
				}
			}
			if name == "merge.scan" {
				scanned++
			}
		}
		defer func() { r.IO.OnPoint = nil }()
	}
	err := r.DB.Merge()
	if r.IO != nil {
		r.IO.OnPoint = nil
	}
	r.tr("merge done")
	if raceFail != nil {
		return nil, true, raceFail
	}
	if err == nil {
		r.F.MergeOK++
		r.F.dirtySince["merge"] = true
	} else {
		r.Stats.Label("merge-returned-" + ErrName(err))
	}
	r.LastMergeErr = err
	if r.OnMergeResult != nil {
		if f := r.OnMergeResult(err); f != nil {
			return touched, true, f
		}
	}
	return touched, true, nil
}

func (r *Runner) execReopen(op *Op) *Fail {
	err := r.DB.Close()
	r.closed = true
	r.tr("close %s", ErrName(err))
	if err != nil {
		return failf("close-error", "Close() = %v", err)
	}
	if r.OnClosed != nil {
		if f := r.OnClosed(r); f != nil {
			return f
		}
	}
	opt := r.Opt
	if op.Opt != nil {
		opt = *op.Opt
	}
	if f := r.open(opt); f != nil {
		return f
	}
	r.F.Reopens++
	if f := r.recheckBackups(); f != nil {
		return f
	}
	for k := range r.F.dirtySince {
		r.F.ReopenAfter[k]++
	}
	r.F.dirtySince = map[string]bool{}
	return nil
}

// execBackup takes a backup into a fresh directory, opens the copy while the
// source is still open and compares it with the model at backup time.
func (r *Runner) execBackup(op *Op) *Fail {
	// first re-examine the backups taken earlier: whatever the source did since must not have touched them
	if f := r.recheckBackups(); f != nil {
		return f
	}
	r.F.Backups++
	dst := filepath.Join(r.Base, fmt.Sprintf("backup-%d", r.F.Backups))
	if op.Nested {
		// the application keeps its backups in sub-directories of the data directory (Open ignores sub-directories)
		dst = filepath.Join(r.Dir, fmt.Sprintf("bk-%d", r.F.Backups))
		r.Stats.Label("backup-into-a-sub-directory-of-the-data-directory")
	} else if op.PrefixDst && !r.prefixDstUsed {
		if rs := []rune(filepath.Base(r.Dir)); len(rs) > 1 {
			r.prefixDstUsed = true
			dst = filepath.Join(r.Base, string(rs[:len(rs)-1]))
			r.Stats.Label("backup-destination-is-a-string-prefix-of-the-source-path")
		}
	} else if op.Reuse && len(r.kept) > 0 {
		// "backups repeated during continued writing" into ONE directory: sound whenever every file the directory
		// holds will be written again (its names are a subset of the source's names); a directory with files the
		// source no longer has (after an adopted merge) is not reused - what happens to those files is not stated
		old := r.kept[len(r.kept)-1]
		src := map[string]bool{}
		ents, _ := os.ReadDir(r.Dir)
		for _, e := range ents {
			src[e.Name()] = true
		}
		subset := true
		ents, _ = os.ReadDir(old.dir)
		for _, e := range ents {
			if e.Name() != ".lock" && !src[e.Name()] {
				subset = false
			}
		}
		if subset {
			r.kept = r.kept[:len(r.kept)-1]
			dst = old.dir
			_ = os.Remove(filepath.Join(dst, ".lock")) // the lock file of the harness's own Open of that copy
			if r.IO != nil {
				r.IO.Forget(dst)
			}
			r.F.BackupReuse++
		}
	}
	if err := r.DB.Backup(dst); err != nil {
		return failf("backup-error", "Backup() = %v", err)
	}
	r.tr("backup ok")
	if _, err := os.Stat(filepath.Join(dst, ".lock")); err == nil {
		return failf("backup-carries-lock", "the backup directory contains the source's lock file")
	}
	ents, _ := os.ReadDir(dst)
	for _, e := range ents {
		if strings.HasSuffix(e.Name(), ".hint") {
			r.F.BackupWithHint++
		}
		// the copy holds each file with exactly the bytes written to it: Backup shrinks pre-extended (mmap) files to
		// their logical size before copying - a copied file longer than what was written is an extension that leaked
		if fi, err := e.Info(); err == nil && r.IO != nil {
			if fs, ok := r.IO.Get(filepath.Join(r.Dir, e.Name())); ok && fi.Size() > fs.Logical {
				return failf("backup-holds-extended-file", "the backup's %s is %d bytes, but only %d bytes were ever written to the source file (a pre-extended file was copied without being shrunk first)", e.Name(), fi.Size(), fs.Logical)
			}
		}
	}
	opt := r.Opt
	if op.Opt != nil {
		opt = *op.Opt
	}
	snap := map[string][]byte{}
	for k, v := range r.Model {
		snap[k] = v
	}
	probe := map[string]struct{}{}
	for k := range r.Probe {
		probe[k] = struct{}{}
	}
	kb := &keptBackup{dir: dst, opt: opt, model: snap, probe: probe, n: r.F.Backups}
	if f := r.verifyBackup(kb, "right after Backup returned"); f != nil {
		return f
	}
	// keep it: it must stay an independent, valid database while the source carries on
	r.kept = append(r.kept, kb)
	if len(r.kept) > 2 {
		old := r.kept[0]
		r.kept = r.kept[1:]
		r.dropBackup(old)
	}
	return nil
}

type keptBackup struct {
	dir    string
	opt    Opt
	model  map[string][]byte
	probe  map[string]struct{}
	n      int
	checks int
}

// verifyBackup opens the copy (while the source is open), compares it with the mapping at backup time, writes one
// key into the COPY (it is an independent database) and closes it.
func (r *Runner) verifyBackup(kb *keptBackup, when string) *Fail {
	copyDB, err := kv.Open(kb.opt.KV(kb.dir))
	if err != nil {
		return failf("backup-open-error", "backup #%d, %s: opening it (while the source is open) with %s failed: %v", kb.n, when, kb.opt, err)
	}
	tmp := &Runner{Env: r.Env, Stats: r.Stats, DB: copyDB, Model: kb.model, Probe: kb.probe, Opt: kb.opt}
	f := tmp.guard("backup-dump", func() *Fail { return tmp.CheckDump(true, nil) })
	if f == nil {
		// the copy is a database of its own: a write into it must succeed and must not show up in the source
		v := GenValue(uint64(9000+kb.n*10+kb.checks), 13)
		if err := copyDB.Put([]byte("~written-into-the-backup"), v); err != nil {
			f = failf("backup-not-writable", "Put into the opened backup failed: %v", err)
		} else {
			kb.model["~written-into-the-backup"] = v
			r.Probe["~written-into-the-backup"] = struct{}{}
		}
	}
	if f != nil {
		func() {
			defer func() { _ = recover() }()
			_ = copyDB.Close()
		}()
		f.Sig = "backup-" + f.Sig
		f.Msg = fmt.Sprintf("backup #%d, %s: in the opened backup: %s", kb.n, when, f.Msg)
		return f
	}
	if err := copyDB.Close(); err != nil {
		return failf("backup-close-error", "closing backup #%d: %v", kb.n, err)
	}
	kb.checks++
	return nil
}

// recheckBackups re-opens every kept backup: it must still hold the mapping of its backup time (plus the harness's
// own writes into it), whatever the source has done in the meantime.
func (r *Runner) recheckBackups() *Fail {
	for _, kb := range r.kept {
		if f := r.verifyBackup(kb, fmt.Sprintf("re-examined after %d more steps of the source", len(r.Ops))); f != nil {
			return f
		}
		r.F.BackupRechecks++
	}
	return nil
}

func (r *Runner) dropBackup(kb *keptBackup) {
	if r.IO != nil {
		r.IO.Forget(kb.dir)
	}
	_ = os.RemoveAll(kb.dir)
}

// execTear restarts the database over the remains of an interrupted append: Close, then the harness appends an
// INCOMPLETE record (a chunk header announcing more payload than follows) to the newest data file, then Open.
// Recovery has to treat it as the end of the log (C03); the mapping is unchanged and every later guarantee
// (sync policy, accounting, framing) must hold on the recovered file as on any other.
func (r *Runner) execTear(op *Op) *Fail {
	if err := r.DB.Close(); err != nil {
		r.closed = true
		return failf("close-error", "Close() = %v", err)
	}
	r.closed = true
	if r.OnClosed != nil {
		if f := r.OnClosed(r); f != nil {
			return f
		}
	}
	ents, _ := os.ReadDir(r.Dir)
	newest := ""
	for _, e := range ents {
		if strings.HasSuffix(e.Name(), ".data") && e.Name() > newest {
			newest = e.Name()
		}
	}
	if newest != "" {
		path := filepath.Join(r.Dir, newest)
		fi, err := os.Stat(path)
		if err == nil {
			room := int64(BlockSize) - fi.Size()%BlockSize
			n := int64(op.N)
			if room <= ChunkHeader {
				n = 0 // the tail of this block is padding territory; leave the file alone
			} else if n > room-1 {
				n = room - 1
			}
			if n > 0 {
				// header: checksum (arbitrary), length = more than what follows, type First; then n-7 payload bytes
				tail := GenValue(op.VSeed, int(n))
				if n >= ChunkHeader {
					announced := uint16(room - ChunkHeader) // would fill the block: always more than the n-7 bytes present
					tail[4], tail[5], tail[6] = byte(announced), byte(announced>>8), 1
				}
				f, err := os.OpenFile(path, os.O_WRONLY|os.O_APPEND, 0)
				if err == nil {
					_, _ = f.Write(tail)
					_ = f.Close()
					r.F.Tears++
				}
			}
		}
	}
	if f := r.open(r.Opt); f != nil {
		f.Msg = "after an interrupted append was left at the end of the newest file: " + f.Msg
		return f
	}
	r.F.Reopens++
	return nil
}

// execKill models the death of the process (not of the machine) between two calls, followed by a restart: nothing
// is flushed any more, the next process finds every byte that was written (the page cache survives) and the flushed
// lengths are what they were. Under standard I/O Close changes no byte of any file, so the handle is closed with the
// hooks muted: the shadow keeps the unflushed tails, which is exactly that state. Every acknowledged mutation must
// survive (C03), and what the new process promises about flushing (Sync(), rotation, Close) covers the inherited
// bytes as well. Under MMap a process death leaves pre-extended files (recorded finding): a clean restart is done.
func (r *Runner) execKill(op *Op) *Fail {
	if r.Opt.IO == 1 || r.IO == nil {
		r.Stats.Exclude("process-death-under-mmap-replaced-by-clean-restart", 1)
		return r.execReopen(op)
	}
	var err error
	r.IO.Muted(func() { err = r.DB.Close() })
	r.closed = true
	if err != nil {
		return failf("close-error", "Close() = %v", err)
	}
	if r.OnKilled != nil {
		r.OnKilled(r)
	}
	opt := r.Opt
	if op.Opt != nil && op.Opt.IO == 0 {
		opt = *op.Opt
	}
	if f := r.open(opt); f != nil {
		f.Msg = "restart after the death of the process (every written byte present, unflushed tails still unflushed): " + f.Msg
		return f
	}
	r.F.Reopens++
	r.F.Kills++
	for k := range r.F.dirtySince {
		r.F.ReopenAfter[k]++
	}
	r.F.dirtySince = map[string]bool{}
	return nil
}

// CloseOnly closes the database without reopening it.
func (r *Runner) CloseOnly() (fail *Fail) {
	defer func() {
		if p := recover(); p != nil {
			fail = failf("panic", "Close panicked: %v\n%s", p, trimStack(debug.Stack()))
		}
	}()
	if r.closed {
		return nil
	}
	err := r.DB.Close()
	r.closed = true
	if err != nil {
		return failf("close-error", "Close() = %v", err)
	}
	return nil
}

// NonTrivialBasic is the C01 rule: at least 3 mutations and at least one key
// written twice or deleted after being written.
func (r *Runner) NonTrivialBasic() bool { return r.F.Muts >= 3 && r.F.Rewrites >= 1 }

// CaseHash identifies the executed history (options + concrete ops).
func (r *Runner) CaseHash(first Opt) uint64 {
	parts := [][]byte{[]byte(first.String())}
	for i := range r.Ops {
		parts = append(parts, opBytes(&r.Ops[i]))
	}
	return Hash64(parts...)
}

func opBytes(op *Op) []byte {
	var b bytes.Buffer
	fmt.Fprintf(&b, "%s|%x|%d|%d|%v|%d|%s|", op.K, op.Key, op.VLen, op.VSeed, op.Sync, op.N, op.Which)
	if op.Opt != nil {
		b.WriteString(op.Opt.String())
	}
	for i := range op.Ops {
		b.Write(opBytes(&op.Ops[i]))
	}
	for i := range op.Race {
		fmt.Fprintf(&b, "@%d%v", op.Race[i].At, op.Race[i].Late)
		b.Write(opBytes(&op.Race[i].Op))
	}
	if op.Iter != nil {
		fmt.Fprintf(&b, "it%v|%x", op.Iter.Reverse, op.Iter.Prefix)
		for _, c := range op.Iter.Calls {
			fmt.Fprintf(&b, "%s%x", c.C, c.Key)
			if c.Op != nil {
				b.Write(opBytes(c.Op))
			}
		}
	}
	return b.Bytes()
}

// AddLabels copies the measured features of a finished case into the stats.
func (r *Runner) AddLabels() {
	s := r.Stats
	lab := func(cond bool, name string) {
		if cond {
			s.Label(name)
		}
	}
	lab(r.F.Rotations > 0, "rotation")
	lab(r.F.BigValue > 0, "value>1block")
	lab(r.F.NearBoundary > 0, "record-end-within-8B-of-boundary")
	lab(r.F.TailPad > 0, "tail-padding")
	lab(r.F.OverLimit > 0, "record>DataFileSize")
	lab(r.F.Batches > 0, "batch")
	lab(r.F.BatchPlainSame > 0, "batch+plain-same-key")
	lab(r.F.MergeOK > 0, "merge-ok")
	lab(r.F.MergeAfterDel > 0, "merge-after-delete")
	lab(r.F.Reopens > 0, "reopen")
	lab(r.F.EmptyKeyOps > 0, "empty-key-op")
	lab(r.F.LongKey > 0, "long-key")
	lab(r.F.Enumerations > 0, "enumeration")
	lab(r.F.FoldWrites > 0, "write-from-inside-fold-callback")
	lab(r.F.BGetRotated > 0, "batch-get-falls-through-to-rotated-file")
	lab(r.F.BGetActive > 0, "batch-get-falls-through-to-active-file")
	lab(r.F.BGetStaged > 0, "batch-get-staged")
	lab(r.F.BatchRepeat > 0, "batch-repeated-key")
	lab(r.F.BPutAfterDel > 0, "batch-put-after-delete")
	lab(r.F.MidBatchFlush > 0, "batch-rotated-before-commit-returned")
	lab(r.F.PostCommit > 0, "post-commit-call")
	lab(r.F.EmptyBatch > 0, "empty-batch")
	lab(r.F.C13Rot > 0, "rotation-observed-at-io-level")
	lab(r.F.C13Thr > 0, "threshold-triggered-sync")
	lab(r.F.C13SyncBatch > 0, "sync-batch")
	lab(r.F.MergeAdopted > 0, "merge-adopted-by-restart")
	lab(r.F.MergeAdoptedOverGarbage > 0, "merge-over-garbage-adopted")
	lab(r.F.HintMerges > 0, "merge-with->=2-hint-entries")
	lab(r.F.Tears > 0, "restart-over-an-incomplete-tail")
	lab(r.F.Kills > 0, "restart-after-process-death-with-unflushed-tails")
	lab(r.F.Backups > 0, "backup")
	lab(r.F.BackupRechecks > 0, "backup-re-examined-after-later-source-activity")
	lab(r.F.Backups > 1, "several-backups")
	lab(r.F.BackupReuse > 0, "backup-into-the-directory-of-an-earlier-backup")
	lab(r.F.BackupWithHint > 0, "backup-with-hint-file")
	lab(r.F.WritesAfterBackup > 0, "write-after-backup")
	for k, n := range r.F.IterLabels {
		lab(n > 0, k)
	}
	for k, n := range r.F.ReopenAfter {
		lab(n > 0, "reopen-after-"+k)
	}
	s.Label(fmt.Sprintf("cfg-sync%d", r.Opt.Sync))
	s.Label(fmt.Sprintf("cfg-index%d", r.Opt.Index))
	s.Label(fmt.Sprintf("cfg-io%d", r.Opt.IO))
}

// AsCase packages the executed history for replay.
func (r *Runner) AsCase(property, kind string, first Opt) *Case {
	c := &Case{Property: property, Kind: kind, Opt: first, Ops: r.Ops}
	if r.Poison != nil {
		c.Note = "caller reuses its key/value buffers"
	}
	return c
}

// Abbrev renders a short human-readable form of the history for samples.
func Abbrev(first Opt, ops []Op) map[string]any {
	var lines []string
	for i := range ops {
		lines = append(lines, abbrevOp(&ops[i]))
		if len(lines) >= 40 {
			lines = append(lines, fmt.Sprintf("… %d more", len(ops)-i-1))
			break
		}
	}
	return map[string]any{"options": first.String(), "ops": lines}
}

func abbrevOp(op *Op) string {
	key := fmt.Sprintf("%q", op.Key)
	if len(op.Key) > 16 {
		key = fmt.Sprintf("key[%d]", len(op.Key))
	}
	switch op.K {
	case "put", "bput":
		return fmt.Sprintf("%s %s len=%d", op.K, key, op.VLen)
	case "del", "bdel", "get", "bget":
		return fmt.Sprintf("%s %s", op.K, key)
	case "batch":
		var sub []string
		for i := range op.Ops {
			sub = append(sub, abbrevOp(&op.Ops[i]))
		}
		return fmt.Sprintf("batch(sync=%v){%s}%v", op.Sync, strings.Join(sub, "; "), op.Post)
	case "reopen":
		if op.Opt != nil {
			return "reopen " + op.Opt.String()
		}
		return "reopen"
	case "merge":
		if len(op.Race) > 0 {
			var sub []string
			for i := range op.Race {
				late := ""
				if op.Race[i].Late {
					late = "(while that record is being rewritten) "
				}
				sub = append(sub, fmt.Sprintf("@%d %s%s", op.Race[i].At, late, abbrevOp(&op.Race[i].Op)))
			}
			return "merge race{" + strings.Join(sub, "; ") + "}"
		}
		return "merge"
	case "emptykey", "bempty":
		return op.K + " " + op.Which
	case "fold":
		if len(op.Race) > 0 {
			var sub []string
			for i := range op.Race {
				sub = append(sub, fmt.Sprintf("@%d %s", op.Race[i].At, abbrevOp(&op.Race[i].Op)))
			}
			return fmt.Sprintf("fold stop=%d callback-writes{%s}", op.N, strings.Join(sub, "; "))
		}
		return fmt.Sprintf("fold stop=%d", op.N)
	case "iter":
		if op.Iter != nil {
			var cs []string
			for _, c := range op.Iter.Calls {
				if c.C == "seek" {
					cs = append(cs, fmt.Sprintf("seek %q", c.Key))
				} else if c.C == "write" && c.Op != nil {
					cs = append(cs, "write:"+abbrevOp(c.Op))
				} else {
					cs = append(cs, c.C)
				}
			}
			return fmt.Sprintf("iter(rev=%v,prefix=%q){%s}", op.Iter.Reverse, op.Iter.Prefix, strings.Join(cs, " "))
		}
	}
	return op.K
}
