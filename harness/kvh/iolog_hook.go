//go:build verif

package kvh

import "github.com/XiXi-2024/xixi-kv/verifhook"

// HooksEnabled reports whether the engine was built with its hooks.
const HooksEnabled = true

var ioKinds = map[verifhook.IOOp]string{
	verifhook.IOOpen: "open", verifhook.IOWrite: "write", verifhook.IOSync: "sync",
	verifhook.IOTruncate: "truncate", verifhook.IOClose: "close",
}

var fsKinds = map[verifhook.FSOp]string{
	verifhook.FSMkdirAll: "mkdir", verifhook.FSRemove: "remove",
	verifhook.FSRename: "rename", verifhook.FSRemoveAll: "removeall",
}

// Install routes the engine's hook calls to l (nil uninstalls).
func Install(l *IOLog) {
	if l == nil {
		verifhook.OnIO, verifhook.OnFS, verifhook.OnPoint = nil, nil, nil
		return
	}
	verifhook.OnIO = func(op verifhook.IOOp, path string, n int64) { l.handleIO(ioKinds[op], path, n) }
	verifhook.OnFS = func(op verifhook.FSOp, a, b string) { l.handleFS(fsKinds[op], a, b) }
	verifhook.OnPoint = func(name string, key []byte) { l.handlePoint(name, key) }
}
