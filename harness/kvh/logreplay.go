package kvh

import (
	"fmt"
	"io"
	"os"
	"path/filepath"
	"sort"
	"strconv"
	"strings"

	"github.com/XiXi-2024/xixi-kv/datafile"
	"github.com/XiXi-2024/xixi-kv/fio"
)

// ScanRec is one record found in a data file by the package's own sequential
// reader.
type ScanRec struct {
	Type    byte
	Key     string
	BatchID uint64
	Pos     datafile.DataPos
	VLen    int
	VHash   uint64
	Frame   int64 // bytes the record occupies according to the format reference (independent of the reader's Size)
}

// FileScan is the decoded content of one data file.
type FileScan struct {
	ID      uint32
	Path    string
	Size    int64 // logical size scanned
	Records []ScanRec
	Err     error // first non-EOF reader error
	End     int64 // offset after the last complete record
}

type scanKey struct {
	path string
	size int64
	ino  uint64
}

// ScanCache avoids rescanning immutable files.
type ScanCache struct {
	m map[scanKey]*FileScan
}

func NewScanCache() *ScanCache { return &ScanCache{m: map[scanKey]*FileScan{}} }

// FileID parses the numeric id of an engine file name.
func FileID(path string) (uint32, bool) {
	base := filepath.Base(path)
	i := strings.IndexByte(base, '.')
	if i <= 0 {
		return 0, false
	}
	n, err := strconv.ParseUint(base[:i], 10, 32)
	if err != nil {
		return 0, false
	}
	return uint32(n), true
}

// ScanDataFile decodes the first `logical` bytes of a data file (the whole
// file if logical < 0) with datafile.DataReader. If the file on disk is
// larger than its logical size (an open mmap file) the logical bytes are
// copied to scratch first. Hooks must be muted by the caller.
func ScanDataFile(path string, logical int64, scratch string) *FileScan {
	id, _ := FileID(path)
	fs := &FileScan{ID: id, Path: path}
	st, err := os.Stat(path)
	if err != nil {
		fs.Err = err
		return fs
	}
	if logical < 0 || logical > st.Size() {
		logical = st.Size()
	}
	fs.Size = logical
	dir := filepath.Dir(path)
	if logical != st.Size() {
		b := make([]byte, logical)
		f, err := os.Open(path)
		if err != nil {
			fs.Err = err
			return fs
		}
		_, err = io.ReadFull(f, b)
		f.Close()
		if err != nil {
			fs.Err = err
			return fs
		}
		dir = filepath.Join(scratch, "scan")
		_ = os.MkdirAll(dir, 0o755)
		tmp := datafile.GetFileName(dir, id, datafile.DataFileSuffix)
		if err := os.WriteFile(tmp, b, 0o644); err != nil {
			fs.Err = err
			return fs
		}
		defer os.Remove(tmp)
	}
	df, err := datafile.OpenFile(dir, id, datafile.DataFileSuffix, fio.StandardFIO)
	if err != nil {
		fs.Err = err
		return fs
	}
	defer df.Close()
	rd := df.NewReader()
	for {
		rec, pos, err := rd.NextLogRecord()
		if err != nil {
			if err != io.EOF {
				fs.Err = err
			}
			break
		}
		start := int64(pos.BlockID)*BlockSize + int64(pos.Offset)
		_, _, frame, _ := FrameLayout(start, EncLen(len(rec.Key), len(rec.Value), rec.BatchID))
		fs.Records = append(fs.Records, ScanRec{
			Type: rec.Type, Key: string(rec.Key), BatchID: rec.BatchID, Pos: *pos,
			VLen: len(rec.Value), VHash: Hash64(rec.Value), Frame: frame,
		})
		fs.End = int64(pos.BlockID)*BlockSize + int64(pos.Offset) + int64(pos.Size)
	}
	return fs
}

// ScanDir scans every data file directly under dir in ascending id order.
// logical(path) returns the logical size to scan (or -1 for the file size).
func ScanDir(dir string, logical func(path string) int64, scratch string, cache *ScanCache) ([]*FileScan, error) {
	ents, err := os.ReadDir(dir)
	if err != nil {
		return nil, err
	}
	var out []*FileScan
	for _, e := range ents {
		if !strings.HasSuffix(e.Name(), datafile.DataFileSuffix) {
			continue
		}
		path := filepath.Join(dir, e.Name())
		l := int64(-1)
		if logical != nil {
			l = logical(path)
		}
		var key scanKey
		if cache != nil {
			if fi, err := os.Stat(path); err == nil {
				sz := l
				if sz < 0 {
					sz = fi.Size()
				}
				key = scanKey{path: path, size: sz, ino: inode(fi)}
				if fs, ok := cache.m[key]; ok {
					out = append(out, fs)
					continue
				}
			}
		}
		fs := ScanDataFile(path, l, scratch)
		if cache != nil && key.path != "" && fs.Err == nil {
			cache.m[key] = fs
		}
		out = append(out, fs)
	}
	sort.Slice(out, func(i, j int) bool { return out[i].ID < out[j].ID })
	return out, nil
}

// Replayed is the result of the reference recovery over scanned files.
type Replayed struct {
	Live      map[string]ScanRec // key -> the record recovery resolves it to
	LiveBytes int64
	Records   int
	Unsealed  int // batch-tagged records without their finished record
}

// ReplayScans applies recovery semantics: files in id order, last record wins,
// tombstones delete, batch records apply when their finished record is read.
func ReplayScans(scans []*FileScan) (*Replayed, error) {
	rp := &Replayed{Live: map[string]ScanRec{}}
	pending := map[uint64][]ScanRec{}
	apply := func(r ScanRec) {
		if r.Type == datafile.LogRecordDeleted {
			delete(rp.Live, r.Key)
		} else {
			rp.Live[r.Key] = r
		}
	}
	for _, fs := range scans {
		if fs.Err != nil {
			return nil, fmt.Errorf("%s: %w", fs.Path, fs.Err)
		}
		for _, r := range fs.Records {
			rp.Records++
			if r.BatchID == 0 {
				apply(r)
				continue
			}
			if r.Type == datafile.LogRecordBatchFinished {
				for _, p := range pending[r.BatchID] {
					apply(p)
				}
				delete(pending, r.BatchID)
				continue
			}
			pending[r.BatchID] = append(pending[r.BatchID], r)
		}
	}
	for _, p := range pending {
		rp.Unsealed += len(p)
	}
	for _, r := range rp.Live {
		rp.LiveBytes += r.Frame
	}
	return rp, nil
}
