package kvh

import (
	"fmt"
	"github.com/XiXi-2024/xixi-kv/datafile"
	"pgregory.net/rapid"
	"sort"
)

// Small fixed key pool: short keys so that overwrites, deletes of live keys
// and shard collisions are frequent, plus keys made of varint-looking bytes.
var shortKeys = [][]byte{
	[]byte("a"), []byte("b"), []byte("c"), []byte("aa"), []byte("ab"), []byte("ba"),
	[]byte("abc"), []byte("b\x00"), {0x80, 0x01}, {0xff}, {0x00}, {0x7f, 0x80},
	// keys that continue a shorter key (a prefix) with 0xff bytes: the top of a prefix range
	{'a', 0xff}, {'a', 0xff, 'z'}, {'a', 0xff, 0xff, 0x01}, {'a', 'b', 0xff, 0x00},
	// structured keys longer than a machine word: twins that agree in their first 7 bytes, differ in the 8th (or only in
	// the low bits of the 7th) and agree again behind it
	[]byte("user:001:name"), []byte("user:002:name"), []byte("key-00010"), []byte("key-00020"),
	[]byte("abcdef\x00z-tail"), []byte("abcdef\x01z-tail"), []byte("user:001"), []byte("user:00"),
}

func init() {
	// two pairs of distinct 64-byte keys with identical xxhash64 (same bucket everywhere the engine hashes keys)
	for _, tag := range []byte{1, 2} {
		if a, b := CollidingKeys(tag); a != nil {
			shortKeys = append(shortKeys, a, b)
		}
	}
}

// KeyPool is the per-case key universe.
type KeyPool struct {
	Keys [][]byte
}

// GenKeyPool draws the key universe of a case: the short keys plus 0-2 special
// (long) keys. maxLong bounds the length of long keys.
func GenKeyPool(t *rapid.T, allowHuge bool) *KeyPool {
	p := &KeyPool{}
	p.Keys = append(p.Keys, shortKeys...)
	n := U(t, 3, "longkeys")
	for i := 0; i < n; i++ {
		choices := []int{40, 300, 5000}
		if allowHuge {
			choices = append(choices, 33000)
		}
		l := Pick(t, choices, "longkeylen")
		k := make([]byte, l)
		FillValue(k, uint64(1000+i))
		k[0] = byte('L' + i)
		p.Keys = append(p.Keys, k)
	}
	return p
}

// Draw picks a key; ~85 % of draws come from the first eight short keys.
func (p *KeyPool) Draw(t *rapid.T, label string) []byte {
	x := U(t, 100, label)
	if x < 85 {
		return p.Keys[x%8]
	}
	return p.Keys[8+U(t, len(p.Keys)-8, label+"tail")]
}

// GenProfile tunes the history generator.
type GenProfile struct {
	Weights     map[string]int // op kind -> weight
	MaxBatchOps int
	Big         bool // allow multi-block values
	OptProfile  OptProfile
	ReopenSame  bool // reopen keeps the options
	BatchGets   int  // percentage of Batch.Get among batch ops (default 20)
	PostCommit  bool // generate calls on the committed batch and empty batches
	IterCalls   int  // max calls per iterator session (default 8)
	IterWrites  bool // interleave writes after iterator creation
	MergeRaces  bool // generate writes executed from inside Merge's scan loop
}

// ValueLen draws a value length from the size classes, steering some draws at
// block boundaries ahead of the current end of the active file.
func ValueLen(t *rapid.T, r *Runner, klen int, batchID uint64, big bool) int {
	cls := U(t, 100, "vclass")
	off := r.ActiveOffset()
	switch {
	case cls < 8:
		return 0
	case cls < 45:
		return rapid.IntRange(1, 64).Draw(t, "vlen")
	case cls < 68:
		return rapid.IntRange(65, 1024).Draw(t, "vlen")
	case cls < 86:
		// end the record delta bytes from the k-th block boundary ahead
		k := 1
		if big {
			k = 1 + U(t, 3, "kth")
		}
		delta := U(t, 19, "delta") - 9
		return steer(r, off, klen, batchID, int64(k), int64(delta))
	case cls < 92:
		// around the file-size limit (estimate versus limit edge)
		fs := r.Opt.FileSize
		if fs > 80000 || fs < 8 {
			return rapid.IntRange(0, 300).Draw(t, "vlen")
		}
		delta := U(t, 81, "fdelta") - 40
		v := int(fs) - klen - 60 + delta
		if v < 0 {
			v = 0
		}
		return v
	default:
		if !big {
			return rapid.IntRange(1025, 9000).Draw(t, "vlen")
		}
		if !r.hugeDone && !r.NoHuge && Pct(t, 7, "huge") {
			// one value of more than a mebibyte per history: size classes above anything the other classes reach
			r.hugeDone = true
			r.Stats.Label("value->1MiB")
			return 1<<20 + U(t, 1300000, "hugelen")
		}
		return rapid.IntRange(BlockSize-200, 3*BlockSize+200).Draw(t, "vlen")
	}
}

// steer computes a value length so that the record ends delta bytes from the
// k-th block boundary ahead of off. It mirrors the engine's rotation estimate
// only to know whether the record will start in a fresh file.
func steer(r *Runner, off int64, klen int, batchID uint64, k, delta int64) int {
	for iter := 0; iter < 2; iter++ {
		target := (off/BlockSize+k)*BlockSize + delta
		v, _ := SteerVLen(off, klen, batchID, target)
		if batchID == 0 && off > 0 && off+int64(datafile.GetLogRecordDiskSize(klen, v)) > r.Opt.FileSize {
			off = 0 // the engine will rotate first: aim from the start of a new file
			continue
		}
		return v
	}
	v, _ := SteerVLen(0, klen, batchID, k*BlockSize+delta)
	return v
}

func pickWeighted(t *rapid.T, w map[string]int, order []string) string {
	total := 0
	for _, k := range order {
		total += w[k]
	}
	x := U(t, total, "kind")
	for _, k := range order {
		if x < w[k] {
			return k
		}
		x -= w[k]
	}
	return order[0]
}

var kindOrder = []string{"put", "del", "get", "batch", "sync", "merge", "reopen", "listkeys", "fold", "stat", "emptykey", "iter", "backup", "bigput", "tear", "wipe", "kill"}

// GenOp draws the next concrete op of a history from the runner's state.
func GenOp(t *rapid.T, r *Runner, pool *KeyPool, p *GenProfile) Op {
	if len(r.Queued) > 0 {
		op := r.Queued[0]
		r.Queued = r.Queued[1:]
		return op
	}
	kind := pickWeighted(t, p.Weights, kindOrder)
	switch kind {
	case "wipe":
		// every live key is deleted one by one (the state in which a merge finds nothing to
		// keep), usually followed by a merge and a restart
		ks := make([]string, 0, len(r.Model))
		for k := range r.Model {
			ks = append(ks, k)
		}
		sort.Strings(ks)
		for _, k := range ks {
			r.Queued = append(r.Queued, Op{K: "del", Key: []byte(k)})
		}
		if p.Weights["merge"] > 0 && Pct(t, 70, "wipemerge") {
			r.Queued = append(r.Queued, Op{K: "merge"})
			if p.Weights["reopen"] > 0 && Pct(t, 60, "wipereopen") {
				op := Op{K: "reopen"}
				if !p.ReopenSame {
					o := GenOpt(t, "reopen", p.OptProfile)
					op.Opt = &o
				}
				r.Queued = append(r.Queued, op)
			}
		}
		if len(r.Queued) == 0 {
			return Op{K: "get", Key: pool.Draw(t, "key")}
		}
		op := r.Queued[0]
		r.Queued = r.Queued[1:]
		return op
	case "put":
		key := pool.Draw(t, "key")
		return Op{K: "put", Key: key, VLen: ValueLen(t, r, len(key), 0, p.Big), VSeed: r.NextSeed()}
	case "del":
		return Op{K: "del", Key: pool.Draw(t, "key")}
	case "get":
		return Op{K: "get", Key: pool.Draw(t, "key")}
	case "batch":
		return GenBatch(t, r, pool, p)
	case "reopen", "kill":
		op := Op{K: kind}
		if !p.ReopenSame {
			o := GenOpt(t, "reopen", p.OptProfile)
			op.Opt = &o
		}
		if kind == "kill" && Pct(t, 50, "syncafterkill") {
			// the application hardens what was recovered before it does anything else
			r.Queued = append(r.Queued, Op{K: "sync"})
		}
		return op
	case "fold":
		op := Op{K: "fold", N: U(t, 4, "stop"), Mutate: Pct(t, 15, "foldmutates")}
		if p.Weights["put"] > 0 && Pct(t, 40, "foldwrites") {
			// writes issued from inside the callback: Fold walks a snapshot, later writes must not disturb it
			n := 1 + U(t, 3, "nfoldw")
			for i := 0; i < n; i++ {
				key := pool.Draw(t, "fwkey")
				w := Op{K: "del", Key: key}
				if Pct(t, 70, "fwput") {
					w = Op{K: "put", Key: key, VLen: rapid.IntRange(0, 300).Draw(t, "fwlen"), VSeed: r.NextSeed()}
				}
				op.Race = append(op.Race, RaceOp{At: U(t, 4, "fwat"), Op: w})
			}
		}
		return op
	case "emptykey":
		return Op{K: "emptykey", Which: Pick(t, []string{"put", "put0", "get", "del"}, "which")}
	case "tear":
		// restart over an interrupted append: Close, an incomplete record is left at the end of the newest file, Open
		return Op{K: "tear", N: 8 + U(t, 400, "tearlen"), VSeed: r.NextSeed()}
	case "backup":
		o := GenOpt(t, "backupreader", p.OptProfile)
		op := Op{K: "backup", Opt: &o, Reuse: Pct(t, 35, "reusebackupdir"), PrefixDst: Pct(t, 12, "prefixdst")}
		if !op.PrefixDst && Pct(t, 12, "nesteddst") {
			op.Nested, op.Reuse = true, false
			return op
		}
		if !op.PrefixDst && Pct(t, 25, "refreshidiom") {
			// "refresh a forked copy": backup; the copy is opened and written into (the harness does that with every
			// backup it keeps); the source appends records of exactly the same size; the copy is written into once more
			// (it is re-examined before every backup) and then refreshed by a backup into the same directory. Source
			// and copy now hold equally long, equally named files with different contents, the copy's being the newer.
			op.Opt, op.Reuse = nil, false
			for i := 1; i <= 2; i++ {
				r.Queued = append(r.Queued, Op{K: "put", Key: []byte(fmt.Sprintf("~written-into-the-sourc%d", i)), VLen: 13, VSeed: r.NextSeed(), Twin: i})
			}
			r.Queued = append(r.Queued, Op{K: "backup", Reuse: true})
		}
		return op
	case "bigput":
		key := pool.Draw(t, "key")
		return Op{K: "put", Key: key, VLen: BlockSize + U(t, 2*BlockSize, "biglen"), VSeed: r.NextSeed()}
	case "iter":
		n := p.IterCalls
		if n == 0 {
			n = 8
		}
		return Op{K: "iter", Iter: GenIterOp(t, r, pool, n, p.IterWrites, p.Weights["batch"] > 0)}
	}
	if kind == "merge" && p.MergeRaces && Pct(t, 55, "races") {
		op := Op{K: "merge"}
		n := 1 + U(t, 3, "nraces")
		for i := 0; i < n; i++ {
			key := pool.Draw(t, "rkey")
			w := Op{K: "del", Key: key}
			if Pct(t, 65, "rput") {
				w = Op{K: "put", Key: key, VLen: rapid.IntRange(0, 300).Draw(t, "rlen"), VSeed: r.NextSeed()}
			}
			at := U(t, 10, "at")
			switch x := U(t, 100, "racekind"); {
			case x < 12 && w.K == "put":
				w.K = "bput"
			case x < 18:
				w = Op{K: "merge"}
			}
			if Pct(t, 12, "atscanned") {
				at = -2
			} else if Pct(t, 35, "atrotated") {
				// between the merge rotation and the start of the scan; sized to make the active file rotate again
				at = -1
				if w.K == "put" {
					w.VLen = ValueLen(t, r, len(key), 0, false)
				}
			}
			rc := RaceOp{At: at, Op: w}
			if at >= 0 && (w.K == "put" || w.K == "del") && Pct(t, 35, "late") {
				// inside the check-then-act window of the scan: to the key of the record being rewritten
				rc.Late = true
				rc.At = U(t, 6, "lateat")
			}
			op.Race = append(op.Race, rc)
		}
		return op
	}
	return Op{K: kind}
}

// GenBatch draws a batch with repeats on one key and keys also written plainly.
func GenBatch(t *rapid.T, r *Runner, pool *KeyPool, p *GenProfile) Op {
	n := 1 + U(t, max(1, p.MaxBatchOps), "nbatch")
	if p.PostCommit && Pct(t, 6, "emptybatch") {
		n = 0
	}
	op := Op{K: "batch", Sync: U(t, 4, "bsync") == 0}
	gets := p.BatchGets
	if gets == 0 {
		gets = 20
	}
	var used [][]byte
	for i := 0; i < n; i++ {
		var key []byte
		if len(used) > 0 && U(t, 3, "repeat") == 0 {
			key = used[U(t, len(used), "which")]
		} else {
			key = pool.Draw(t, "bkey")
		}
		used = append(used, key)
		x := U(t, 100, "bkind")
		switch {
		case x < gets:
			op.Ops = append(op.Ops, Op{K: "bget", Key: key})
		case x < gets+(100-gets)*3/4:
			op.Ops = append(op.Ops, Op{K: "bput", Key: key, VLen: ValueLen(t, r, len(key), 1<<60, p.Big), VSeed: r.NextSeed()})
		case x < 99:
			op.Ops = append(op.Ops, Op{K: "bdel", Key: key})
		default:
			op.Ops = append(op.Ops, Op{K: "bempty", Which: Pick(t, []string{"put", "del", "get"}, "bwhich")})
		}
	}
	if p.PostCommit {
		for _, c := range []string{"put", "del", "get"} {
			if Pct(t, 40, "post") {
				op.Post = append(op.Post, c)
			}
		}
	}
	return op
}

// GenIterOp draws an iterator session: calls whose Seek targets are drawn
// around the snapshot keys; seeks that turn out to point backwards at run
// time are skipped (and counted) by the executor.
func GenIterOp(t *rapid.T, r *Runner, pool *KeyPool, maxCalls int, writes bool, batches bool) *IterOp {
	it := &IterOp{Reverse: rapid.Bool().Draw(t, "reverse")}
	switch U(t, 6, "prefixkind") {
	case 0, 1, 2:
	case 3:
		it.Prefix = []byte("a")
	case 4:
		it.Prefix = []byte("b")
	case 5:
		it.Prefix = Pick(t, [][]byte{[]byte("ab"), []byte("zz"), []byte("abcd"), {0x80}, []byte("L")}, "prefix")
	}
	n := U(t, maxCalls+1, "ncalls")
	for i := 0; i < n; i++ {
		x := U(t, 100, "call")
		switch {
		case x < 40:
			it.Calls = append(it.Calls, IterCall{C: "next"})
		case x < 55:
			it.Calls = append(it.Calls, IterCall{C: "rewind"})
		case x < 85 || !writes:
			it.Calls = append(it.Calls, IterCall{C: "seek", Key: genSeekTarget(t, pool)})
		default:
			key := pool.Draw(t, "wkey")
			var w Op
			switch x := U(t, 100, "wkind"); {
			case x < 30:
				w = Op{K: "del", Key: key}
			case x < 70 || maxCalls <= 6:
				w = Op{K: "put", Key: key, VLen: rapid.IntRange(0, 200).Draw(t, "wlen"), VSeed: r.NextSeed()}
			case x < 85:
				// a second iterator, opened and used while this one is open (each has the snapshot of its own creation)
				w = Op{K: "iter", Iter: GenIterOp(t, r, pool, 6, true, false)}
			case x < 92:
				w = Op{K: "fold", N: U(t, 4, "nstop")}
			case x < 96 || !batches:
				w = Op{K: "listkeys"}
			default:
				w = Op{K: "batch", Ops: []Op{{K: "bput", Key: key, VLen: rapid.IntRange(0, 200).Draw(t, "wblen"), VSeed: r.NextSeed()}, {K: "bdel", Key: pool.Draw(t, "wbkey")}}}
			}
			it.Calls = append(it.Calls, IterCall{C: "write", Op: &w})
		}
	}
	return it
}

func genSeekTarget(t *rapid.T, pool *KeyPool) []byte {
	k := pool.Draw(t, "seekkey")
	switch U(t, 5, "seekmod") {
	case 0, 1:
		return k // an existing (or at least generated) key
	case 2:
		return append(append([]byte(nil), k...), 0x00) // just after k
	case 3:
		if len(k) > 0 && k[len(k)-1] > 0 {
			kk := append([]byte(nil), k...)
			kk[len(kk)-1]--
			return append(kk, 0xff) // just before k
		}
		return k
	default:
		return Pick(t, [][]byte{{0xff, 0xff, 0xff}, []byte("zzzz"), {}, []byte("a"), []byte("b")}, "seekfixed")
	}
}
