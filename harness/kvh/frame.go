package kvh

import "encoding/binary"

// Independent re-statement of the on-disk framing arithmetic. It is used to
// STEER generators towards block boundaries and, in C11/C17, as a reference
// for sizes. It is written from the format description (32 KiB blocks, 7-byte
// chunk header, a tail of <= 7 bytes is zero-padded), not copied from the
// engine.

const (
	BlockSize   = 32 * 1024
	ChunkHeader = 7
)

func varintLen(x int64) int {
	var b [binary.MaxVarintLen64]byte
	return binary.PutVarint(b[:], x)
}

func uvarintLen(x uint64) int {
	var b [binary.MaxVarintLen64]byte
	return binary.PutUvarint(b[:], x)
}

// EncLen is the length of an encoded record payload (before chunk framing).
func EncLen(klen, vlen int, batchID uint64) int {
	return 1 + varintLen(int64(klen)) + varintLen(int64(vlen)) + uvarintLen(batchID) + klen + vlen
}

// FrameLayout computes where a record of dataLen payload bytes appended at
// absolute file offset off starts and ends, and how many bytes it occupies
// (chunk headers included, padding excluded).
func FrameLayout(off int64, dataLen int) (start, end int64, size int64, padded int64) {
	r := off % BlockSize
	if r+ChunkHeader >= BlockSize {
		padded = BlockSize - r
		off += padded
		r = 0
	}
	start = off
	remaining := int64(dataLen)
	for remaining > 0 {
		capacity := BlockSize - r - ChunkHeader
		w := remaining
		if w > capacity {
			w = capacity
		}
		off += ChunkHeader + w
		size += ChunkHeader + w
		remaining -= w
		r = off % BlockSize
	}
	return start, off, size, padded
}

// SteerVLen picks a value length such that a record with a klen-byte key
// appended at absolute offset off ends at target (absolute), or as close to it
// as the framing allows. ok reports an exact hit.
func SteerVLen(off int64, klen int, batchID uint64, target int64) (vlen int, ok bool) {
	if target <= off {
		return 0, false
	}
	guess := int(target-off) - EncLen(klen, 0, batchID) - ChunkHeader*int((target-off)/BlockSize+1)
	best, bestDist := 0, int64(1<<62)
	for d := -64; d <= 64; d++ {
		v := guess + d
		if v < 0 {
			continue
		}
		_, end, _, _ := FrameLayout(off, EncLen(klen, v, batchID))
		dist := end - target
		if dist < 0 {
			dist = -dist
		}
		if dist < bestDist {
			best, bestDist = v, dist
		}
		if dist == 0 {
			return v, true
		}
	}
	return best, false
}
