package kvh

import (
	"fmt"
	"io"
	"os"
	"path/filepath"
	"runtime/debug"
	"sort"
	"strings"

	kv "github.com/XiXi-2024/xixi-kv"
)

// The crash engine: one in-process run of a workload yields its crash images.
// At an intercepted event (the callback fires BEFORE the operation) the data
// directory and the sibling merge directory are copied - logical bytes only -
// and execution continues. A crash at instant k is by construction "the files
// as they were before call k".

// ImageFile describes one file of an image.
type ImageFile struct {
	Rel      string // "db/000000001.data" or "db-merge/…"
	Logical  int64
	Synced   int64
	Physical int64
}

// Instant is the captured state at one crash instant.
type Instant struct {
	Event    Event
	Acked    int  // mutations acknowledged so far
	InFlight bool // an operation was executing
	OpIndex  int  // index of the op executing (or just finished)
	OpKind   string
	OpWrites int // write events the op in flight had issued before this instant
	Files    []ImageFile
	srcBase  string // base directory the Rel paths were captured from
	frozen   string // directory holding the frozen logical bytes
	Durable  int    // L: leading mutations fully below the synced lengths
}

// CaptureInstant freezes the logical bytes of every file under base/db and
// base/db-merge into a new directory below imgRoot.
func CaptureInstant(io8 *IOLog, base string, imgRoot string, n int) (*Instant, error) {
	inst := &Instant{srcBase: base}
	inst.frozen = filepath.Join(imgRoot, fmt.Sprintf("frozen-%d", n))
	for _, sub := range []string{"db", "db-merge"} {
		dir := filepath.Join(base, sub)
		ents, err := os.ReadDir(dir)
		if err != nil {
			continue
		}
		if err := os.MkdirAll(filepath.Join(inst.frozen, sub), 0o755); err != nil {
			return nil, err
		}
		for _, e := range ents {
			if e.IsDir() || e.Name() == ".lock" {
				continue
			}
			path := filepath.Join(dir, e.Name())
			fi, err := e.Info()
			if err != nil {
				continue
			}
			f := ImageFile{Rel: filepath.Join(sub, e.Name()), Logical: fi.Size(), Synced: fi.Size(), Physical: fi.Size()}
			if fs, ok := io8.Get(path); ok {
				f.Logical, f.Synced = fs.Logical, fs.Synced
				if fs.Physical > f.Physical {
					f.Physical = fs.Physical
				}
				if f.Logical > fi.Size() {
					f.Logical = fi.Size()
				}
				if f.Synced > f.Logical {
					f.Synced = f.Logical
				}
			}
			if err := copyPrefix(path, filepath.Join(inst.frozen, f.Rel), f.Logical); err != nil {
				return nil, err
			}
			inst.Files = append(inst.Files, f)
		}
	}
	sort.Slice(inst.Files, func(i, j int) bool { return inst.Files[i].Rel < inst.Files[j].Rel })
	return inst, nil
}

// ReadLogical reads the logical bytes of an engine file (an open mmap file is
// physically extended to a multiple of 512 MiB; only its written prefix is read).
func ReadLogical(io8 *IOLog, path string) ([]byte, error) {
	f, err := os.Open(path)
	if err != nil {
		return nil, err
	}
	defer f.Close()
	fi, err := f.Stat()
	if err != nil {
		return nil, err
	}
	n := fi.Size()
	if io8 != nil {
		if fs, ok := io8.Get(path); ok && fs.Logical < n {
			n = fs.Logical
		}
	}
	b := make([]byte, n)
	_, err = io.ReadFull(f, b)
	return b, err
}

func copyPrefix(src, dst string, n int64) error {
	in, err := os.Open(src)
	if err != nil {
		return err
	}
	defer in.Close()
	out, err := os.Create(dst)
	if err != nil {
		return err
	}
	defer out.Close()
	_, err = io.CopyN(out, in, n)
	if err == io.EOF {
		err = nil
	}
	return err
}

// FrozenPath returns the path of the frozen copy of a file.
func (in *Instant) FrozenPath(rel string) string { return filepath.Join(in.frozen, rel) }

// Drop removes the frozen bytes.
func (in *Instant) Drop() { _ = os.RemoveAll(in.frozen) }

// Unsynced lists the files with bytes beyond their synced length.
func (in *Instant) Unsynced() []ImageFile {
	var out []ImageFile
	for _, f := range in.Files {
		if f.Logical > f.Synced {
			out = append(out, f)
		}
	}
	return out
}

// Materialise builds an image directory from the frozen bytes. cuts maps Rel
// to the surviving length of that file (absent = all logical bytes, i.e. a
// pure process crash). With keepPhysical the physical size of extended (mmap)
// files is restored by a sparse truncate.
func (in *Instant) Materialise(dst string, cuts map[string]int64, keepPhysical bool) error {
	for _, sub := range []string{"db", "db-merge"} {
		if _, err := os.Stat(filepath.Join(in.frozen, sub)); err == nil {
			if err := os.MkdirAll(filepath.Join(dst, sub), 0o755); err != nil {
				return err
			}
		}
	}
	for _, f := range in.Files {
		n := f.Logical
		if c, ok := cuts[f.Rel]; ok && c < n {
			n = c
		}
		if err := copyPrefix(filepath.Join(in.frozen, f.Rel), filepath.Join(dst, f.Rel), n); err != nil {
			return err
		}
		if keepPhysical && f.Physical > n {
			if err := os.Truncate(filepath.Join(dst, f.Rel), f.Physical); err != nil {
				return err
			}
		}
	}
	return nil
}

// StateDigest is the digest of a key-value mapping.
func StateDigest(m map[string][]byte) uint64 {
	ks := make([]string, 0, len(m))
	for k := range m {
		ks = append(ks, k)
	}
	sort.Strings(ks)
	parts := make([][]byte, 0, 2*len(ks))
	for _, k := range ks {
		parts = append(parts, []byte(k), m[k])
	}
	return Hash64(parts...)
}

// DumpDB reads the whole visible mapping of an open database: sorted
// ListKeys, Get of every key; it also cross-checks Stat().KeyNum and Fold.
func DumpDB(db *kv.DB) (m map[string][]byte, fail *Fail) {
	defer func() {
		if p := recover(); p != nil {
			fail = failf("panic", "dumping the recovered database panicked: %v\n%s", p, trimStack(debug.Stack()))
		}
	}()
	m = map[string][]byte{}
	for _, k := range db.ListKeys() {
		v, err := db.Get(k)
		if err != nil {
			return nil, failf("recovered-key-unreadable", "recovered database lists key %q but Get fails: %v", k, err)
		}
		m[string(k)] = v
	}
	if n := db.Stat().KeyNum; n != len(m) {
		return nil, failf("stat-keynum", "recovered database: Stat().KeyNum = %d, ListKeys has %d distinct keys", n, len(m))
	}
	n := 0
	var bad *Fail
	err := db.Fold(func(k, v []byte) bool {
		n++
		if want, ok := m[string(k)]; !ok || !sameBytes(want, v) {
			bad = failf("fold-disagrees", "recovered database: Fold passes %q=%s, Get says %s", k, ValueDigest(v), ValueDigest(want))
			return false
		}
		return true
	})
	if bad != nil {
		return nil, bad
	}
	if err != nil {
		return nil, failf("fold-error", "recovered database: Fold = %v", err)
	}
	if n != len(m) {
		return nil, failf("fold-count", "recovered database: Fold visited %d pairs, ListKeys has %d", n, len(m))
	}
	return m, nil
}

// OpenImage opens the database of an image directory (image/db) with the real
// Open under recover and dumps it. The database is returned open unless a
// failure is reported.
func OpenImage(image string, opt Opt) (db *kv.DB, dump map[string][]byte, fail *Fail) {
	defer func() {
		if p := recover(); p != nil {
			fail = failf("recovery-panic", "Open of the crash image panicked: %v\n%s", p, trimStack(debug.Stack()))
		}
	}()
	db, err := kv.Open(opt.KV(filepath.Join(image, "db")))
	if err != nil {
		return nil, nil, failf("recovery-open-error", "Open of the crash image failed: %v", err)
	}
	dump, f := DumpDB(db)
	if f != nil {
		func() {
			defer func() { _ = recover() }()
			_ = db.Close()
		}()
		return nil, nil, f
	}
	return db, dump, nil
}

// DescribeDump renders a mapping briefly.
func DescribeDump(m map[string][]byte) string {
	ks := make([]string, 0, len(m))
	for k := range m {
		ks = append(ks, k)
	}
	sort.Strings(ks)
	var sb strings.Builder
	sb.WriteString("{")
	for i, k := range ks {
		if i > 0 {
			sb.WriteString(", ")
		}
		if i >= 14 {
			fmt.Fprintf(&sb, "… %d more", len(ks)-i)
			break
		}
		kk := k
		if len(kk) > 12 {
			kk = kk[:12] + "…"
		}
		fmt.Fprintf(&sb, "%q:%s", kk, ValueDigest(m[k]))
	}
	sb.WriteString("}")
	return sb.String()
}
