// Package kvh is the shared library of the xixi-kv verification harness:
// environment, statistics/evidence, deterministic value generation, option
// descriptions, the I/O shadow built on the verifhook callbacks, reference
// models and the history interpreter.
package kvh

import (
	"fmt"
	"os"
	"path/filepath"
	"strconv"
	"sync/atomic"
	"time"
)

// Env is the run environment handed over by bin/check.
type Env struct {
	Out     string // directory for stats files and replay artefacts
	Scratch string // base directory for scratch databases (tmpfs)
	Tier    string // quick | thorough
	Seed    int64  // VERIF_SEED
	Shard   int
	NShards int
	Checks  int // rapid case count for this shard (informational; rapid gets the flag)
	Scale   int // generic multiplier for enumerated domains (1 quick)
	// SoftDeadline (unix seconds, 0 = none): after it no further case is generated; the cases that
	// were not run are counted in the evidence, the run stays conclusive for what it did explore
	SoftDeadline int64
}

// PastSoftDeadline reports whether the run should stop generating cases.
func (e *Env) PastSoftDeadline() bool {
	return e.SoftDeadline > 0 && time.Now().Unix() >= e.SoftDeadline
}

var env *Env

func GetEnv() *Env {
	if env != nil {
		return env
	}
	e := &Env{
		Out:     os.Getenv("VERIF_OUT"),
		Scratch: os.Getenv("VERIF_SCRATCH"),
		Tier:    os.Getenv("VERIF_TIER"),
	}
	if e.Tier == "" {
		e.Tier = "quick"
	}
	e.Seed = envInt("VERIF_SEED", 1)
	e.Shard = int(envInt("VERIF_SHARD", 0))
	e.NShards = int(envInt("VERIF_NSHARDS", 1))
	e.Checks = int(envInt("VERIF_CHECKS", 100))
	e.Scale = int(envInt("VERIF_SCALE", 1))
	e.SoftDeadline = envInt("VERIF_SOFT_DEADLINE", 0)
	if e.Scratch == "" {
		base := "/dev/shm"
		if st, err := os.Stat(base); err != nil || !st.IsDir() {
			base = os.TempDir()
		}
		d, err := os.MkdirTemp(base, "verif-scratch-")
		if err != nil {
			panic(err)
		}
		e.Scratch = d
	}
	if e.Out == "" {
		e.Out = filepath.Join(e.Scratch, "out")
	}
	_ = os.MkdirAll(e.Out, 0o755)
	_ = os.MkdirAll(e.Scratch, 0o755)
	env = e
	return e
}

func envInt(name string, def int64) int64 {
	v := os.Getenv(name)
	if v == "" {
		return def
	}
	n, err := strconv.ParseInt(v, 10, 64)
	if err != nil {
		return def
	}
	return n
}

// Thorough reports whether the thorough tier is running.
func (e *Env) Thorough() bool { return e.Tier == "thorough" }

// Mine reports whether enumerated item idx belongs to this shard.
func (e *Env) Mine(idx int) bool { return idx%e.NShards == e.Shard }

var dirCounter atomic.Int64

// NewDir returns a fresh empty scratch directory (the caller removes it).
func (e *Env) NewDir(prefix string) string {
	n := dirCounter.Add(1)
	d := filepath.Join(e.Scratch, fmt.Sprintf("%s-%d-%d-%d", prefix, os.Getpid(), e.Shard, n))
	_ = os.RemoveAll(d)
	if err := os.MkdirAll(d, 0o755); err != nil {
		panic(err)
	}
	return d
}
