package kvh

import (
	"os"
	"path/filepath"
	"sort"
	"strings"
	"sync"
)

// FileState is the harness's shadow of one file as driven by the fio hooks.
type FileState struct {
	Logical  int64 // bytes written so far (sum of write sizes, cut by truncates)
	Synced   int64 // Logical at the last sync
	Physical int64 // size on disk (differs from Logical for extended mmap files)
	Open     bool
	Writes   int
}

// Event is one intercepted engine operation; it is delivered BEFORE the
// operation is carried out.
type Event struct {
	Seq   int    `json:"seq"`
	Kind  string `json:"kind"` // open write sync truncate close | mkdir remove rename removeall | point
	Path  string `json:"path"`
	Path2 string `json:"path2,omitempty"`
	N     int64  `json:"n,omitempty"`
	Name  string `json:"name,omitempty"` // point name
}

// IOLog keeps the shadow state and optionally records / forwards events.
type IOLog struct {
	mu      sync.Mutex
	Files   map[string]*FileState
	Events  []Event
	Record  bool
	Points  bool           // deliver point events to OnEvent as well
	OnEvent func(ev Event) // called with l.mu released, before the operation happens
	OnPoint func(name string, key []byte)
	seq     int
	mute    int
}

// Muted runs fn with the hooks ignored (used while the harness itself opens
// engine files for inspection; single-threaded checks only).
func (l *IOLog) Muted(fn func()) {
	l.mu.Lock()
	l.mute++
	l.mu.Unlock()
	defer func() {
		l.mu.Lock()
		l.mute--
		l.mu.Unlock()
	}()
	fn()
}

func NewIOLog() *IOLog { return &IOLog{Files: map[string]*FileState{}} }

func (l *IOLog) file(path string) *FileState {
	f := l.Files[path]
	if f == nil {
		f = &FileState{}
		if st, err := os.Stat(path); err == nil {
			f.Logical, f.Synced, f.Physical = st.Size(), st.Size(), st.Size()
		}
		l.Files[path] = f
	}
	return f
}

func (l *IOLog) handleIO(kind string, path string, n int64) {
	l.mu.Lock()
	if l.mute > 0 {
		l.mu.Unlock()
		return
	}
	l.seq++
	ev := Event{Seq: l.seq, Kind: kind, Path: path, N: n}
	if l.Record {
		l.Events = append(l.Events, ev)
	}
	cb := l.OnEvent
	l.mu.Unlock()
	// the callback sees the state BEFORE this operation
	if cb != nil {
		cb(ev)
	}
	l.mu.Lock()
	f := l.file(path)
	switch kind {
	case "open":
		f.Open = true
	case "write":
		f.Logical += n
		f.Writes++
		if f.Physical < f.Logical {
			f.Physical = f.Logical
		}
	case "sync":
		f.Synced = f.Logical
	case "truncate":
		f.Physical = n
		if n < f.Logical {
			f.Logical = n
		}
		if n < f.Synced {
			f.Synced = n
		}
	case "close":
		f.Open = false
	}
	l.mu.Unlock()
}

func (l *IOLog) handleFS(kind string, a, b string) {
	l.mu.Lock()
	if l.mute > 0 {
		l.mu.Unlock()
		return
	}
	l.seq++
	ev := Event{Seq: l.seq, Kind: kind, Path: a, Path2: b}
	if l.Record {
		l.Events = append(l.Events, ev)
	}
	cb := l.OnEvent
	l.mu.Unlock()
	if cb != nil {
		cb(ev)
	}
	l.mu.Lock()
	switch kind {
	case "remove":
		delete(l.Files, a)
	case "rename":
		if f, ok := l.Files[a]; ok {
			l.Files[b] = f
			delete(l.Files, a)
		} else {
			delete(l.Files, b)
		}
	case "removeall":
		pre := a + string(filepath.Separator)
		for p := range l.Files {
			if strings.HasPrefix(p, pre) {
				delete(l.Files, p)
			}
		}
	}
	l.mu.Unlock()
}

func (l *IOLog) handlePoint(name string, key []byte) {
	l.mu.Lock()
	if l.mute > 0 {
		l.mu.Unlock()
		return
	}
	cbp := l.OnPoint
	var cb func(Event)
	var ev Event
	if l.Points {
		l.seq++
		ev = Event{Seq: l.seq, Kind: "point", Name: name}
		if l.Record {
			l.Events = append(l.Events, ev)
		}
		cb = l.OnEvent
	}
	l.mu.Unlock()
	if cb != nil {
		cb(ev)
	}
	if cbp != nil {
		cbp(name, key)
	}
}

// SetOnEvent installs (or with nil removes) the I/O event callback; safe while
// other goroutines are inside the engine.
func (l *IOLog) SetOnEvent(fn func(ev Event)) {
	l.mu.Lock()
	l.OnEvent = fn
	l.mu.Unlock()
}

// SetOnPoint installs (or with nil removes) the point callback; safe while
// other goroutines are inside the engine.
func (l *IOLog) SetOnPoint(fn func(name string, key []byte)) {
	l.mu.Lock()
	l.OnPoint = fn
	l.mu.Unlock()
}

// Seq returns the number of events seen so far.
func (l *IOLog) Seq() int {
	l.mu.Lock()
	defer l.mu.Unlock()
	return l.seq
}

// Snapshot returns a copy of the shadow state of every file under dir (and
// under any of the extra directories).
func (l *IOLog) Snapshot(dirs ...string) map[string]FileState {
	l.mu.Lock()
	defer l.mu.Unlock()
	out := map[string]FileState{}
	for p, f := range l.Files {
		for _, d := range dirs {
			if strings.HasPrefix(p, d+string(filepath.Separator)) {
				out[p] = *f
				break
			}
		}
	}
	return out
}

// ActiveData returns path and logical size of the data file with the largest
// id under dir ("" if none).
func (l *IOLog) ActiveData(dir string) (string, int64) {
	l.mu.Lock()
	defer l.mu.Unlock()
	pre := dir + string(filepath.Separator)
	best := ""
	for p := range l.Files {
		if strings.HasPrefix(p, pre) && strings.HasSuffix(p, ".data") && !strings.Contains(p[len(pre):], string(filepath.Separator)) {
			if p > best {
				best = p
			}
		}
	}
	if best == "" {
		return "", 0
	}
	return best, l.Files[best].Logical
}

// DataFiles lists the tracked data files directly under dir, sorted.
func (l *IOLog) DataFiles(dir string) []string {
	l.mu.Lock()
	defer l.mu.Unlock()
	pre := dir + string(filepath.Separator)
	var out []string
	for p := range l.Files {
		if strings.HasPrefix(p, pre) && strings.HasSuffix(p, ".data") && !strings.Contains(p[len(pre):], string(filepath.Separator)) {
			out = append(out, p)
		}
	}
	sort.Strings(out)
	return out
}

// Forget drops the shadow of everything under dir.
func (l *IOLog) Forget(dir string) {
	l.mu.Lock()
	defer l.mu.Unlock()
	pre := dir + string(filepath.Separator)
	for p := range l.Files {
		if strings.HasPrefix(p, pre) {
			delete(l.Files, p)
		}
	}
}

// Get returns a copy of one file's state.
func (l *IOLog) Get(path string) (FileState, bool) {
	l.mu.Lock()
	defer l.mu.Unlock()
	f, ok := l.Files[path]
	if !ok {
		return FileState{}, false
	}
	return *f, true
}
