package harness

import (
	"fmt"
	"io"
	"os"
	"path/filepath"
	"sort"
	"strings"
	"testing"

	"github.com/XiXi-2024/xixi-kv/datafile"
	"github.com/XiXi-2024/xixi-kv/fio"
	"pgregory.net/rapid"
	"verifharness/kvh"
)

// C06 — merge preserves every key's value and actually reclaims the garbage.
// C18 — hint files faithfully index the merged data files.
// Both are decided by one observer attached to generated histories; the
// profiles and the non-trivial rules differ.

var c06Profile = &kvh.GenProfile{
	Weights: map[string]int{
		"put": 36, "del": 14, "batch": 12, "merge": 15, "wipe": 5, "reopen": 16, "get": 2, "listkeys": 1, "sync": 1,
	},
	MaxBatchOps: 6,
	Big:         true,
	MergeRaces:  true,
	OptProfile:  kvh.OptProfile{MMapPercent: 20, FileSizes: []int64{200, 1000, 4096, 40000, 1 << 20}},
}

var c18Profile = &kvh.GenProfile{
	Weights: map[string]int{
		"put": 44, "del": 12, "batch": 10, "merge": 16, "wipe": 5, "reopen": 16, "get": 1,
	},
	MaxBatchOps: 5,
	Big:         true,
	MergeRaces:  true,
	OptProfile:  kvh.OptProfile{MMapPercent: 40, FileSizes: []int64{200, 1000, 4096, 40000, 1 << 20}},
}

const c06Rule = "histories (plain and batch writes, deletes, overwrites, oversized records, several merges, restarts in between, reopen with a smaller or larger DataFileSize so that the output needs fewer, equal or more files than the input) with Merge at generated points; writes racing with the merge are executed from inside the scan loop at generated scan positions (every chosen interleaving, deterministically); oracle: (i) dump == reference map before Merge, after Merge, after the adopting restart and after every later restart, (ii) if Merge returned nil then after the adopting restart the merge directory is gone and the files below the first non-participating id hold exactly one plain (batch id 0, non-tombstone) record per key that was live when Merge started and was not rewritten during the scan, and nothing that was not live then, (iii) if Merge returned an error no key's value changed; non-trivial = a successful merge over a history with >= 1 dead record that is followed by an adopting restart; distinct = hash of (options, ops)"

const c18Rule = "C06 histories with keys from the varint-like and long-key classes under both I/O types; between Merge() and the adopting restart the hint file and the rewritten files in the merge directory are decoded with the package's own readers: (i) every hint entry (key, position) names a position at which the rewritten file holds a plain record with exactly that key and that size, (ii) the multiset of hinted keys equals the multiset of keys stored in the rewritten files, (iii) the adopting Open (hint path) and the next Open (scan path) show the same dump and the same DiskSize-ReclaimableSize; non-trivial = a merge producing >= 2 hint entries; distinct = hash of (options, ops)"

type mergeObs struct {
	prop        string
	pending     bool              // a successful merge waits for its adopting restart
	m0          map[string][]byte // model when Merge was called
	raced       map[string]bool   // keys rewritten during the scan
	mergeNon    uint32            // first id that did not take part
	inputFiles  int
	deadBefore  bool
	adopted     int
	hintEntries int
	hintPathGap int64 // DiskSize-Reclaimable right after the adopting (hint path) Open
	hintPathSet bool
	beforeModel map[string][]byte
	preFiles    []uint32
	preHashes   map[string]uint64 // rotated data files before a Merge call that then failed
	failedMerge bool
}

func dataIDs(dir string) []uint32 {
	ents, _ := os.ReadDir(dir)
	var ids []uint32
	for _, e := range ents {
		if strings.HasSuffix(e.Name(), datafile.DataFileSuffix) {
			if id, ok := kvh.FileID(e.Name()); ok {
				ids = append(ids, id)
			}
		}
	}
	sort.Slice(ids, func(i, j int) bool { return ids[i] < ids[j] })
	return ids
}

func mergeSetup(prop string) func(r *kvh.Runner) {
	return func(r *kvh.Runner) {
		o := &mergeObs{prop: prop}
		r.BeforeStep = append(r.BeforeStep, func(r *kvh.Runner, op *kvh.Op) {
			if op.K != "merge" {
				return
			}
			o.beforeModel = map[string][]byte{}
			for k, v := range r.Model {
				o.beforeModel[k] = v
			}
			o.preFiles = dataIDs(r.Dir)
			o.deadBefore = r.F.Rewrites > 0
			o.failedMerge = false
			o.preHashes = map[string]uint64{}
			for i, id := range o.preFiles {
				if i == len(o.preFiles)-1 {
					break // the active file keeps growing
				}
				name := fmt.Sprintf("%09d%s", id, datafile.DataFileSuffix)
				if b, err := kvh.ReadLogical(gIO, filepath.Join(r.Dir, name)); err == nil {
					o.preHashes[name] = kvh.Hash64(b)
				}
			}
			// a new Merge call first removes whatever an earlier, not yet adopted merge left behind
			o.pending = false
		})
		r.AfterStep = append(r.AfterStep, func(r *kvh.Runner, op *kvh.Op) *kvh.Fail {
			switch op.K {
			case "merge":
				// a merge that gets adopted replaces the files: the two Opens no longer see the same files
				o.hintPathSet = false
				if r.LastMergeErr != nil {
					o.failedMerge = true
					// an abandoned merge must leave nothing that a later Open could adopt
					if fi, err := os.Stat(filepath.Join(r.Dir+"-merge", fmt.Sprintf("%09d%s", 0, datafile.MergeFinishedFileSuffix))); err == nil && fi.Size() > 0 && o.pending == false {
						return &kvh.Fail{Sig: "failed-merge-leaves-marker", Msg: fmt.Sprintf("Merge returned %v but left a merge-finished marker behind", r.LastMergeErr)}
					}
					return nil
				}
				o.pending = true
				o.m0 = o.beforeModel
				o.raced = map[string]bool{}
				for _, rc := range op.Race {
					o.raced[string(rc.Op.Key)] = true
				}
				o.inputFiles = len(o.preFiles)
				o.mergeNon = 0
				if n := len(o.preFiles); n > 0 {
					o.mergeNon = o.preFiles[n-1] + 1
				}
				if len(op.Race) > 0 {
					r.Stats.Label("merge-with-racing-writes")
				}
				if r.F.MergeOK > 1 {
					r.Stats.Label("second-merge-in-history")
				}
				return o.inspectMergeDir(r)
			case "reopen":
				if o.hintPathSet {
					// this Open took the scan path over the same files the previous one indexed through the hint
					o.hintPathSet = false
					st := r.DB.Stat()
					if gap := st.DiskSize - st.ReclaimableSize; gap != o.hintPathGap {
						return &kvh.Fail{Sig: "hint-path-and-scan-path-disagree", Msg: fmt.Sprintf("DiskSize-ReclaimableSize was %d after the hint-path Open and is %d after the scan-path Open of the same files", o.hintPathGap, gap)}
					}
					r.Stats.Label("scan-path-open-after-hint-path-open")
				}
				if o.failedMerge {
					// (iii) the restart after a failed Merge behaves as if no merge had run: the rotated files are untouched
					o.failedMerge = false
					for name, want := range o.preHashes {
						b, err := kvh.ReadLogical(gIO, filepath.Join(r.Dir, name))
						if err != nil {
							return &kvh.Fail{Sig: "failed-merge-changed-data-files", Msg: fmt.Sprintf("Merge had returned an error, yet after the next restart %s is gone: %v", name, err)}
						}
						if kvh.Hash64(b) != want {
							return &kvh.Fail{Sig: "failed-merge-changed-data-files", Msg: fmt.Sprintf("Merge had returned an error, yet after the next restart %s has different content", name)}
						}
					}
					r.Stats.Label("restart-after-failed-merge-leaves-files-untouched")
				}
				if !o.pending {
					return nil
				}
				o.pending = false
				return o.checkAdopted(r)
			default:
				// any write between the hint-path Open and the next Open changes the sizes: compare only untouched pairs
				if op.K != "get" && op.K != "listkeys" && op.K != "fold" && op.K != "stat" && op.K != "sync" {
					o.hintPathSet = false
				}
			}
			return nil
		})
	}
}

// inspectMergeDir decodes the merge output between Merge() and the adopting restart.
func (o *mergeObs) inspectMergeDir(r *kvh.Runner) *kvh.Fail {
	mdir := r.Dir + "-merge"
	// Merge returned nil: "or after the adopting restart the directory holds only the merged live records" needs a
	// finished merge to adopt - a success that leaves no marker behind reclaims nothing
	if fi, err := os.Stat(datafile.GetFileName(mdir, 0, datafile.MergeFinishedFileSuffix)); err != nil || fi.Size() == 0 {
		return &kvh.Fail{Sig: "merge-ok-without-finished-merge", Msg: fmt.Sprintf("Merge() returned nil but left no merge-finished marker in %s (%v): nothing will be adopted, the garbage stays", filepath.Base(mdir), err)}
	}
	var scans []*kvh.FileScan
	var err error
	type hintEnt struct {
		key string
		pos datafile.DataPos
	}
	var hints []hintEnt
	var hintErr error
	gIO.Muted(func() {
		scans, err = kvh.ScanDir(mdir, nil, r.Base, nil)
		// the package's OpenFile creates what it does not find: read a copy, and only if the engine wrote a hint file
		// at all (an observer that creates the missing file hides the consequences of its absence)
		src := datafile.GetFileName(mdir, 0, datafile.HintFileSuffix)
		b, e := os.ReadFile(src)
		if e != nil {
			if os.IsNotExist(e) {
				r.Stats.Label("finished-merge-without-hint-file")
				return
			}
			hintErr = e
			return
		}
		cdir := filepath.Join(r.Base, "hintcopy")
		_ = os.MkdirAll(cdir, 0o755)
		cp := datafile.GetFileName(cdir, 0, datafile.HintFileSuffix)
		if e := os.WriteFile(cp, b, 0o644); e != nil {
			hintErr = e
			return
		}
		defer os.Remove(cp)
		hf, e := datafile.OpenFile(cdir, 0, datafile.HintFileSuffix, fio.StandardFIO)
		if e != nil {
			hintErr = e
			return
		}
		defer hf.Close()
		rd := hf.NewReader()
		for {
			k, p, e := rd.NextHintRecord()
			if e != nil {
				if e != io.EOF {
					hintErr = e
				}
				break
			}
			hints = append(hints, hintEnt{key: string(k), pos: *p})
		}
	})
	if err != nil {
		return &kvh.Fail{Sig: "harness-scan", Msg: err.Error()}
	}
	if hintErr != nil {
		return &kvh.Fail{Sig: "hint-file-unreadable", Msg: fmt.Sprintf("reading the hint file in the merge directory: %v", hintErr)}
	}
	// index the stored records by position
	type at struct {
		fid, block, off uint32
	}
	stored := map[at]kvh.ScanRec{}
	storedKeys := map[string]int{}
	for _, fs := range scans {
		if fs.Err != nil {
			return &kvh.Fail{Sig: "merged-file-unreadable", Msg: fmt.Sprintf("%s: %v", fs.Path, fs.Err)}
		}
		for _, rec := range fs.Records {
			stored[at{fs.ID, rec.Pos.BlockID, rec.Pos.Offset}] = rec
			storedKeys[rec.Key]++
			// (C06 ii) only plain live records
			if rec.Type != datafile.LogRecordNormal || rec.BatchID != 0 {
				return &kvh.Fail{Sig: "merged-file-holds-non-plain-record", Msg: fmt.Sprintf("rewritten file %d holds a record of type %d with batch id %d for key %q", fs.ID, rec.Type, rec.BatchID, rec.Key)}
			}
			want, ok := o.m0[rec.Key]
			if !ok {
				return &kvh.Fail{Sig: "merged-file-holds-dead-key", Msg: fmt.Sprintf("rewritten file %d holds key %q which was not live when Merge started", fs.ID, rec.Key)}
			}
			if rec.VLen != len(want) || rec.VHash != kvh.Hash64(want) {
				if !(len(want) == 0 && rec.VLen == 0) {
					return &kvh.Fail{Sig: "merged-file-holds-superseded-value", Msg: fmt.Sprintf("rewritten file %d holds a %d-byte value for key %q, the value live at merge start has %d bytes", fs.ID, rec.VLen, rec.Key, len(want))}
				}
			}
		}
	}
	for k, n := range storedKeys {
		if n > 1 {
			return &kvh.Fail{Sig: "merged-files-hold-key-twice", Msg: fmt.Sprintf("key %q is stored %d times in the rewritten files", k, n)}
		}
	}
	for k := range o.m0 {
		if !o.raced[k] && storedKeys[k] == 0 {
			return &kvh.Fail{Sig: "merged-files-miss-live-key", Msg: fmt.Sprintf("key %q was live when Merge started and was not rewritten during the scan, but the rewritten files do not hold it", k)}
		}
	}
	for k := range o.raced {
		if _, live := o.m0[k]; live {
			if storedKeys[k] > 0 {
				r.Stats.Label("racing-write-hit-already-scanned-key")
			} else {
				r.Stats.Label("racing-write-hit-not-yet-scanned-key")
			}
		}
	}
	// (C18 i, ii)
	hintKeys := map[string]int{}
	for _, h := range hints {
		hintKeys[h.key]++
		rec, ok := stored[at{h.pos.Fid, h.pos.BlockID, h.pos.Offset}]
		if !ok {
			return &kvh.Fail{Sig: "hint-entry-points-nowhere", Msg: fmt.Sprintf("hint entry for key %q names file %d block %d offset %d where no record starts", h.key, h.pos.Fid, h.pos.BlockID, h.pos.Offset)}
		}
		if rec.Key != h.key {
			return &kvh.Fail{Sig: "hint-entry-wrong-key", Msg: fmt.Sprintf("hint entry for key %q points at a record with key %q", h.key, rec.Key)}
		}
		if rec.Pos.Size != h.pos.Size {
			return &kvh.Fail{Sig: "hint-entry-wrong-size", Msg: fmt.Sprintf("hint entry for key %q says size %d, the record occupies %d bytes", h.key, h.pos.Size, rec.Pos.Size)}
		}
	}
	if len(hintKeys) != len(storedKeys) {
		return &kvh.Fail{Sig: "hint-keys-differ-from-stored-keys", Msg: fmt.Sprintf("the hint file lists %d distinct keys, the rewritten files store %d", len(hintKeys), len(storedKeys))}
	}
	for k, n := range hintKeys {
		if storedKeys[k] != n {
			return &kvh.Fail{Sig: "hint-keys-differ-from-stored-keys", Msg: fmt.Sprintf("key %q appears %d times in the hint file and %d times in the rewritten files", k, n, storedKeys[k])}
		}
	}
	o.hintEntries = len(hints)
	if len(hints) >= 2 {
		r.F.HintMerges++
	}
	if len(scans) >= 2 {
		r.Stats.Label("merge-output->=2-files")
	}
	for _, h := range hints {
		if len(h.key) > kvh.BlockSize-64 {
			r.Stats.Label("multi-chunk-hint-record")
		}
		for _, b := range []byte(h.key) {
			if b >= 0x80 {
				r.Stats.Label("hinted-key-with-continuation-bit-bytes")
				break
			}
		}
	}
	switch {
	case len(scans) < o.inputFiles:
		r.Stats.Label("merge-output-fewer-files-than-input")
	case len(scans) == o.inputFiles:
		r.Stats.Label("merge-output-same-number-of-files")
	default:
		r.Stats.Label("merge-output-more-files-than-input")
	}
	return nil
}

// checkAdopted runs right after the restart that must have adopted the merge.
func (o *mergeObs) checkAdopted(r *kvh.Runner) *kvh.Fail {
	if _, err := os.Stat(r.Dir + "-merge"); err == nil {
		return &kvh.Fail{Sig: "merge-dir-survives-restart", Msg: "Merge returned nil, but after the next Open the merge directory still exists (the merge was not adopted)"}
	}
	var scans []*kvh.FileScan
	var err error
	gIO.Muted(func() {
		scans, err = kvh.ScanDir(r.Dir, func(p string) int64 {
			if fs, ok := gIO.Get(p); ok {
				return fs.Logical
			}
			return -1
		}, r.Base, nil)
	})
	if err != nil {
		return &kvh.Fail{Sig: "harness-scan", Msg: err.Error()}
	}
	seen := map[string]int{}
	for _, fs := range scans {
		if fs.ID >= o.mergeNon {
			continue
		}
		if fs.Err != nil {
			return &kvh.Fail{Sig: "adopted-file-unreadable", Msg: fmt.Sprintf("%s: %v", fs.Path, fs.Err)}
		}
		for _, rec := range fs.Records {
			seen[rec.Key]++
			if rec.Type != datafile.LogRecordNormal || rec.BatchID != 0 {
				return &kvh.Fail{Sig: "garbage-survives-merge", Msg: fmt.Sprintf("after the adopting restart file %d (below the first non-participating id %d) still holds a record of type %d / batch id %d for key %q", fs.ID, o.mergeNon, rec.Type, rec.BatchID, rec.Key)}
			}
			want, ok := o.m0[rec.Key]
			if !ok || (rec.VHash != kvh.Hash64(want) && !(len(want) == 0 && rec.VLen == 0)) {
				return &kvh.Fail{Sig: "garbage-survives-merge", Msg: fmt.Sprintf("after the adopting restart file %d (below the first non-participating id %d) holds a record for key %q that was dead or superseded when Merge started", fs.ID, o.mergeNon, rec.Key)}
			}
		}
	}
	for k, n := range seen {
		if n > 1 {
			return &kvh.Fail{Sig: "garbage-survives-merge", Msg: fmt.Sprintf("after the adopting restart key %q is stored %d times below the first non-participating id", k, n)}
		}
	}
	for k := range o.m0 {
		if !o.raced[k] && seen[k] == 0 {
			return &kvh.Fail{Sig: "adopted-files-miss-live-key", Msg: fmt.Sprintf("key %q was live at the merge and untouched by racing writes, but no adopted file holds it", k)}
		}
	}
	o.adopted++
	r.F.MergeAdopted++
	if o.deadBefore {
		r.F.MergeAdoptedOverGarbage++
	}
	st := r.DB.Stat()
	o.hintPathGap, o.hintPathSet = st.DiskSize-st.ReclaimableSize, true
	return nil
}

func TestC06(t *testing.T) {
	st := kvh.StatsFor("C06")
	st.SetRule(c06Rule,
		"Merge iterates the rotated files in Go map order, so the record order inside the rewritten files varies between runs; the oracle is order-free",
		"racing writes are injected at the engine's merge.scan hook, where Merge holds no lock; the interleaving is the generated scan position",
		"bounds as C01")
	defer finishProperty(st)
	checkCases(t, st, func(t *rapid.T) {
		runHistoryCase(t, "C06", c06Profile, func(r *kvh.Runner) bool { return r.F.MergeAdoptedOverGarbage > 0 })
	})
}

func TestC18(t *testing.T) {
	st := kvh.StatsFor("C18")
	st.SetRule(c18Rule,
		"the hint file and the rewritten files are read with datafile.DataReader (validated separately by C11)",
		"the comparison of the hint-path Open with the scan-path Open is made only when nothing was written in between")
	defer finishProperty(st)
	t.Run("two-databases-merge-at-once", func(t *testing.T) { c18TwoMerges(t, st) })
	checkCases(t, st, func(t *rapid.T) {
		runHistoryCase(t, "C18", c18Profile, func(r *kvh.Runner) bool { return r.F.HintMerges > 0 })
	})
}

func init() {
	historySetups["C06"] = mergeSetup("C06")
	historySetups["C18"] = mergeSetup("C18")
}
