package harness

import (
	"bytes"
	"errors"
	"fmt"
	"os"
	"path/filepath"
	"runtime"
	"runtime/debug"
	"sort"
	"strings"
	"sync"
	"sync/atomic"
	"testing"
	"time"

	kv "github.com/XiXi-2024/xixi-kv"
	"github.com/anishathalye/porcupine"
	"pgregory.net/rapid"
	"verifharness/kvh"
)

// C08 — concurrent Put/Get/Delete are linearizable and agree with restart
// recovery.
//
// (a) controlled windows: client A runs until a chosen hook point inside its
//     operation and is parked there; client B runs until it finishes or is
//     blocked on a lock (detected from its goroutine's wait state); A resumes.
//     Every (A op, hook point, B op, initial state, index type) combination of
//     the two-client one-key templates is enumerated; rapid adds pre/post
//     histories and a second key.
// (b) free-running goroutines with real parallelism.
// Oracles: per-key linearizability of the recorded history (porcupine) and,
// at quiescence, live dump == dump after Close/Open.

const c08Rule = "(a) enumerated two-client windows: A in {Put, Delete of a present key, Get, Merge} parked at each of its hook points (put.appended, delete.checked, delete.appended, get.indexed, merge.scan) x B in {Put, Delete, Get} on the same key x initial state {absent, present} x index type, plus rapid-generated variants with pre/post histories, a second key and small files; (b) free-running: 2..16 goroutines x 5..40 Put/Delete/Get on 1..4 overlapping keys with real parallelism, optional concurrent Merge, small DataFileSize; oracle: every history is per-key linearizable as a register (porcupine; operations are timestamped with a global atomic logical clock at call and return) and at quiescence the live dump equals the dump after Close/Open; non-trivial = two operations on one key overlap in logical time and at least one is a write; distinct = hash of (program, window) resp. of the recorded history"

type c08Op struct {
	K    string `json:"k"` // put del get merge
	Key  string `json:"key,omitempty"`
	VLen int    `json:"vlen,omitempty"`
	ID   int    `json:"id,omitempty"` // value id (unique per put)
}

type c08Window struct {
	A     c08Op  `json:"a"`
	Point string `json:"point"`
	B     c08Op  `json:"b"`
}

type c08Case struct {
	Property string     `json:"property"`
	Kind     string     `json:"kind"`
	Opt      kvh.Opt    `json:"options"`
	Pre      []c08Op    `json:"pre,omitempty"`
	Window   *c08Window `json:"window,omitempty"`
	Post     []c08Op    `json:"post,omitempty"`
	Clients  [][]c08Op  `json:"clients,omitempty"` // free-running programs
	Merger   bool       `json:"merger,omitempty"`
	// free-running: the clients start on a database that has Pre behind it, then (optionally) a Merge, then a restart
	PreMerge  bool       `json:"preMerge,omitempty"`
	PreReopen bool       `json:"preReopen,omitempty"`
	History   []c08Event `json:"history,omitempty"` // saved with a failing free-running case
}

type c08Event struct {
	Client int    `json:"client"`
	Op     c08Op  `json:"op"`
	Call   int64  `json:"call"`
	Ret    int64  `json:"ret"`
	Out    int    `json:"out"` // get: value id (0 = not found, -1 unknown bytes)
	Err    string `json:"err,omitempty"`
}

type c08Run struct {
	db     *kv.DB
	clock  atomic.Int64
	mu     sync.Mutex
	hist   []c08Event
	values map[uint64]int // hash of value bytes -> id
	nextID int
}

func c08Value(id, n int) []byte {
	if n < 1 {
		n = 1
	}
	// the id is spelled out in front so that two puts never carry equal bytes (one- and
	// two-byte pseudo-random values did collide, and a Get was then attributed to the wrong put)
	return append([]byte{byte(id >> 16), byte(id >> 8), byte(id)}, kvh.GenValue(uint64(id)*7919+13, n)...)
}

func (r *c08Run) exec(client int, op c08Op) c08Event {
	ev := c08Event{Client: client, Op: op}
	ev.Call = r.clock.Add(1)
	switch op.K {
	case "put":
		err := r.db.Put([]byte(op.Key), c08Value(op.ID, op.VLen))
		ev.Err = errStr(err)
	case "del":
		err := r.db.Delete([]byte(op.Key))
		ev.Err = errStr(err)
	case "get":
		v, err := r.db.Get([]byte(op.Key))
		switch {
		case err == nil:
			r.mu.Lock()
			id, ok := r.values[kvh.Hash64(v)]
			r.mu.Unlock()
			if !ok {
				id = -1
			}
			ev.Out = id
		case errors.Is(err, kv.ErrKeyNotFound):
			ev.Out = 0
		default:
			ev.Err = errStr(err)
		}
	case "merge":
		err := r.db.Merge()
		if err != nil && !errors.Is(err, kv.ErrMergeIsProgress) && !errors.Is(err, kv.ErrMergeFileIDConflict) {
			ev.Err = errStr(err)
		}
	}
	ev.Ret = r.clock.Add(1)
	r.mu.Lock()
	r.hist = append(r.hist, ev)
	r.mu.Unlock()
	return ev
}

func errStr(err error) string {
	if err == nil {
		return ""
	}
	return kvh.ErrName(err)
}

func (r *c08Run) register(ops ...[]c08Op) {
	for _, l := range ops {
		for i := range l {
			if l[i].K == "put" {
				r.nextID++
				l[i].ID = r.nextID
				r.values[kvh.Hash64(c08Value(l[i].ID, l[i].VLen))] = l[i].ID
			}
		}
	}
}

// ---- porcupine register model

type regIn struct {
	kind string
	id   int
}

var regModel = porcupine.Model{
	Init: func() interface{} { return 0 },
	Step: func(state, input, output interface{}) (bool, interface{}) {
		in := input.(regIn)
		switch in.kind {
		case "put":
			return true, in.id
		case "del":
			return true, 0
		default:
			return output.(int) == state.(int), state
		}
	},
	Equal: func(a, b interface{}) bool { return a.(int) == b.(int) },
}

// checkHistory verifies per-key linearizability. An operation that returned
// an internal error is treated as possibly applied: its return is moved to
// the end of time and (for reads) it is dropped.
func checkHistory(hist []c08Event) (fail *kvh.Fail, overlap bool, unknown bool) {
	byKey := map[string][]c08Event{}
	var end int64
	for _, e := range hist {
		if e.Ret > end {
			end = e.Ret
		}
	}
	for _, e := range hist {
		if e.Op.K == "merge" {
			continue
		}
		byKey[e.Op.Key] = append(byKey[e.Op.Key], e)
	}
	keys := make([]string, 0, len(byKey))
	for k := range byKey {
		keys = append(keys, k)
	}
	sort.Strings(keys)
	for _, k := range keys {
		evs := byKey[k]
		var ops []porcupine.Operation
		for _, e := range evs {
			if e.Op.K == "get" && e.Out == -1 {
				return &kvh.Fail{Sig: "get-returned-never-written-bytes", Msg: fmt.Sprintf("Get(%q) by client %d returned bytes that no Put ever wrote", k, e.Client)}, overlap, false
			}
			if e.Err != "" {
				if e.Op.K == "get" {
					continue
				}
				e.Ret = end + 1
			}
			ops = append(ops, porcupine.Operation{ClientId: e.Client, Input: regIn{e.Op.K, e.Op.ID}, Call: e.Call, Output: e.Out, Return: e.Ret})
		}
		for i := range evs {
			for j := range evs {
				if i != j && evs[i].Call < evs[j].Ret && evs[j].Call < evs[i].Ret && (evs[i].Op.K != "get" || evs[j].Op.K != "get") {
					overlap = true
				}
			}
		}
		res := porcupine.CheckOperationsTimeout(regModel, ops, 20*time.Second)
		switch res {
		case porcupine.Illegal:
			sort.Slice(evs, func(i, j int) bool { return evs[i].Call < evs[j].Call })
			var sb strings.Builder
			for _, e := range evs {
				fmt.Fprintf(&sb, "\n  client %d %s id=%d -> out=%d err=%q  [%d,%d]", e.Client, e.Op.K, e.Op.ID, e.Out, e.Err, e.Call, e.Ret)
			}
			return &kvh.Fail{Sig: "history-not-linearizable", Msg: fmt.Sprintf("the operations on key %q cannot be ordered as an atomic register:%s", k, sb.String())}, overlap, false
		case porcupine.Unknown:
			unknown = true
		}
	}
	return nil, overlap, unknown
}

// quiescentAgreement: the mapping seen live equals the mapping a restart recovers.
func quiescentAgreement(db *kv.DB, opt kvh.Opt, dir string) (*kv.DB, *kvh.Fail) {
	live, f := kvh.DumpDB(db)
	if f != nil {
		return db, f
	}
	if err := db.Close(); err != nil {
		return nil, &kvh.Fail{Sig: "close-error", Msg: err.Error()}
	}
	db2, err := kv.Open(opt.KV(dir))
	if err != nil {
		return nil, &kvh.Fail{Sig: "open-error", Msg: "restart after the concurrent run: " + err.Error()}
	}
	rec, f := kvh.DumpDB(db2)
	if f != nil {
		return db2, f
	}
	if kvh.StateDigest(live) != kvh.StateDigest(rec) {
		return db2, &kvh.Fail{Sig: "live-view-differs-from-recovered-view", Msg: fmt.Sprintf("at quiescence the live database shows %s, after Close/Open it shows %s (the order in which racing writes reached the log is not the order in which they won)", kvh.DescribeDump(live), kvh.DescribeDump(rec))}
	}
	return db2, nil
}

// ---- goroutine wait-state inspection

// goroutineState returns the wait state ("running", "semacquire", "sync.RWMutex.Lock", …)
// of the goroutine whose stack contains marker, or "" if there is none.
var stackBuf = make([]byte, 1<<20)

func goroutineState(marker string) string {
	buf := stackBuf
	n := runtime.Stack(buf, true)
	for _, g := range bytes.Split(buf[:n], []byte("\n\n")) {
		if !bytes.Contains(g, []byte(marker)) {
			continue
		}
		// "goroutine 12 [sync.RWMutex.Lock]:" possibly with ", 2 minutes"
		i := bytes.IndexByte(g, '[')
		j := bytes.IndexByte(g, ']')
		if i >= 0 && j > i {
			s := string(g[i+1 : j])
			if k := strings.IndexByte(s, ','); k >= 0 {
				s = s[:k]
			}
			return s
		}
	}
	return ""
}

func isLockWait(state string) bool {
	switch state {
	case "semacquire", "sync.Mutex.Lock", "sync.RWMutex.Lock", "sync.RWMutex.RLock", "sync.Cond.Wait":
		return true
	}
	return false
}

// ---- (a) controlled window

//go:noinline
func c08clientB(r *c08Run, op c08Op, done chan struct{}) {
	debug.SetPanicOnFault(true)
	r.exec(2, op)
	close(done)
}

func runWindow(c *c08Case) (feat map[string]bool, fail *kvh.Fail) {
	feat = map[string]bool{}
	e := kvh.GetEnv()
	base := e.NewDir("c08")
	dir := filepath.Join(base, "db")
	defer func() {
		gIO.Forget(base)
		_ = os.RemoveAll(base)
	}()
	db, err := kv.Open(c.Opt.KV(dir))
	if err != nil {
		return feat, &kvh.Fail{Sig: "open-error", Msg: err.Error()}
	}
	r := &c08Run{db: db, values: map[uint64]int{}}
	defer func() {
		if r.db != nil {
			func() {
				defer func() { _ = recover() }()
				_ = r.db.Close()
			}()
		}
	}()
	pre := append([]c08Op(nil), c.Pre...)
	post := append([]c08Op(nil), c.Post...)
	w := *c.Window
	ab := []c08Op{w.A, w.B}
	r.register(pre, ab, post)
	w.A, w.B = ab[0], ab[1]
	for _, op := range pre {
		if ev := r.exec(0, op); ev.Err != "" {
			return feat, &kvh.Fail{Sig: "internal-error", Msg: fmt.Sprintf("sequential %s returned %s", op.K, ev.Err)}
		}
	}
	// arm the hook point: the first arrival is client A (B has not been started yet)
	parked := make(chan struct{})
	resume := make(chan struct{})
	var armed atomic.Bool
	armed.Store(true)
	park := func() {
		if armed.CompareAndSwap(true, false) {
			close(parked)
			<-resume
		}
	}
	if strings.HasPrefix(w.Point, "io.") {
		// park A right before its first write/fsync system call (the engine's I/O call-out)
		kind := strings.TrimPrefix(w.Point, "io.")
		gIO.SetOnEvent(func(ev kvh.Event) {
			if ev.Kind == kind && strings.HasPrefix(ev.Path, dir+"/") && armed.Load() {
				park()
			}
		})
		defer gIO.SetOnEvent(nil)
	} else {
		gIO.SetOnPoint(func(name string, key []byte) {
			if name == w.Point {
				park()
			}
		})
		defer gIO.SetOnPoint(nil)
	}
	aDone := make(chan struct{})
	go func() {
		debug.SetPanicOnFault(true)
		r.exec(1, w.A)
		close(aDone)
	}()
	select {
	case <-parked:
		feat["A-parked-at-"+w.Point] = true
	case <-aDone:
		feat["A-finished-without-reaching-point"] = true
		armed.Store(false) // nobody may park any more
	case <-time.After(60 * time.Second):
		return feat, &kvh.Fail{Sig: "harness-timeout", Msg: "client A neither parked nor finished"}
	}
	didPark := feat["A-parked-at-"+w.Point]
	bDone := make(chan struct{})
	go c08clientB(r, w.B, bDone)
	// wait until B finishes or is blocked on a lock
	deadline := time.Now().Add(5 * time.Second)
wait:
	for {
		select {
		case <-bDone:
			feat["B-completed-inside-A's-window"] = true
			break wait
		default:
		}
		if st := goroutineState("c08clientB"); isLockWait(st) {
			feat["B-blocked-on-lock-until-A-resumed"] = true
			break wait
		}
		if time.Now().After(deadline) {
			feat["B-state-unknown"] = true
			break wait
		}
		time.Sleep(50 * time.Microsecond)
	}
	if didPark {
		close(resume)
	}
	select {
	case <-aDone:
	case <-time.After(60 * time.Second):
		return feat, deadlockOrTimeout("client A did not finish after being resumed")
	}
	select {
	case <-bDone:
	case <-time.After(60 * time.Second):
		return feat, deadlockOrTimeout("client B did not finish")
	}
	gIO.SetOnPoint(nil)
	for _, op := range post {
		r.exec(0, op)
	}
	// a final read of every key by a fresh client
	keys := map[string]bool{}
	for _, l := range [][]c08Op{pre, ab, post} {
		for _, op := range l {
			if op.Key != "" {
				keys[op.Key] = true
			}
		}
	}
	for k := range keys {
		r.exec(3, c08Op{K: "get", Key: k})
	}
	for _, ev := range r.hist {
		if ev.Err != "" {
			c.History = r.hist
			return feat, &kvh.Fail{Sig: "internal-error-under-concurrency", Msg: fmt.Sprintf("client %d %s(%q) returned %s", ev.Client, ev.Op.K, ev.Op.Key, ev.Err)}
		}
	}
	f, overlap, unknown := checkHistory(r.hist)
	if f != nil {
		c.History = r.hist
		return feat, f
	}
	feat["overlap"] = overlap
	feat["porcupine-unknown"] = unknown
	db2, f := quiescentAgreement(r.db, c.Opt, dir)
	r.db = db2
	if f != nil {
		c.History = r.hist
		return feat, f
	}
	return feat, nil
}

func deadlockOrTimeout(what string) *kvh.Fail {
	buf := make([]byte, 1<<20)
	n := runtime.Stack(buf, true)
	return &kvh.Fail{Sig: "harness-timeout", Msg: what + "\n" + string(buf[:min(n, 6000)])}
}

var c08Points = map[string][]string{
	"put":   {"put.appended", "io.write", "io.sync"},
	"del":   {"delete.checked", "delete.appended", "io.write", "io.sync"},
	"get":   {"get.indexed"},
	"merge": {"merge.rotated", "merge.scan", "merge.scanned"},
}

func c08Templates(t *testing.T, st *kvh.Stats) {
	e := kvh.GetEnv()
	idx := 0
	for index := int8(1); index <= 3; index++ {
		for _, present := range []bool{false, true} {
			for _, ak := range []string{"put", "del", "get", "merge"} {
				for _, point := range c08Points[ak] {
					for _, bk := range []string{"put", "del", "get"} {
						for _, fs := range []int64{1 << 20, 100} {
							idx++
							if !e.Mine(idx) {
								continue
							}
							c := &c08Case{Property: "C08", Kind: "c08window", Opt: kvh.Opt{Index: index, Shards: 2, FileSize: fs, BytesPerSync: 1}}
							if present {
								c.Pre = []c08Op{{K: "put", Key: "k", VLen: 20}}
							} else {
								c.Pre = []c08Op{{K: "put", Key: "other", VLen: 20}}
							}
							c.Window = &c08Window{A: c08Op{K: ak, Key: "k", VLen: 30}, Point: point, B: c08Op{K: bk, Key: "k", VLen: 40}}
							if point == "io.sync" {
								c.Opt.Sync = 1 // Always: the operation fsyncs before it returns
							}
							if fs == 100 {
								c.Window.B.VLen = 120 // larger than the limit: B's write rotates the active file inside A's window
							}
							if ak == "merge" {
								c.Window.A.Key = ""
							}
							kvh.PersistCase("C08", c)
							feat, f := runWindow(c)
							kvh.ClearPersisted("C08")
							c08Account(t, st, c, feat, f, "template")
						}
					}
				}
			}
		}
	}
	st.Exhaustive("two-client one-key window templates: index type x initial state x A op x hook point x B op x file size", int64(idx))
}

func c08Account(t fataler, st *kvh.Stats, c *c08Case, feat map[string]bool, f *kvh.Fail, kind string) {
	if f != nil {
		if strings.HasPrefix(f.Sig, "harness") {
			st.Label("inconclusive-" + f.Sig)
			return
		}
		report(t, st, c, f)
	}
	st.Eval(1)
	st.Label(kind)
	for k, v := range feat {
		if v && k != "overlap" {
			st.Label(k)
		}
	}
	if feat["overlap"] {
		st.NonTrivial(kvh.Hash64([]byte(fmt.Sprintf("%+v|%+v|%+v|%+v|%v", c.Opt, c.Pre, c.Window, c.Post, c.Clients))))
		if st.WantSample() {
			st.Sample(map[string]any{"kind": kind, "options": c.Opt.String(), "pre": c.Pre, "window": c.Window, "post": c.Post, "observed": feat})
		} else {
			st.Sample(nil)
		}
	}
}

func genC08Op(t *rapid.T, keys []string, label string) c08Op {
	op := c08Op{Key: kvh.Pick(t, keys, label+"key")}
	switch x := kvh.U(t, 100, label+"kind"); {
	case x < 50:
		op.K = "put"
		op.VLen = 1 + kvh.U(t, 120, label+"vlen")
	case x < 75:
		op.K = "del"
	default:
		op.K = "get"
	}
	return op
}

func c08GeneratedWindow(t *rapid.T, st *kvh.Stats) {
	keys := []string{"k", "k", "j"}
	c := &c08Case{Property: "C08", Kind: "c08window"}
	c.Opt = kvh.GenOpt(t, "opt", kvh.OptProfile{NoMMap: true, FileSizes: []int64{100, 300, 4096, 1 << 20}})
	for i, n := 0, kvh.U(t, 5, "npre"); i < n; i++ {
		c.Pre = append(c.Pre, genC08Op(t, keys, "pre"))
	}
	a := genC08Op(t, keys, "a")
	if kvh.Pct(t, 15, "amerge") {
		a = c08Op{K: "merge"}
	}
	b := genC08Op(t, keys, "b")
	if a.K != "merge" && kvh.Pct(t, 80, "samekey") {
		b.Key = a.Key
	}
	c.Window = &c08Window{A: a, Point: kvh.Pick(t, c08Points[a.K], "point"), B: b}
	for i, n := 0, kvh.U(t, 4, "npost"); i < n; i++ {
		c.Post = append(c.Post, genC08Op(t, keys, "post"))
	}
	kvh.PersistCase("C08", c)
	feat, f := runWindow(c)
	kvh.ClearPersisted("C08")
	c08Account(t, st, c, feat, f, "generated-window")
}

// ---- (b) free running

func runFree(c *c08Case) (feat map[string]bool, fail *kvh.Fail) {
	feat = map[string]bool{}
	e := kvh.GetEnv()
	base := e.NewDir("c08f")
	dir := filepath.Join(base, "db")
	defer func() {
		gIO.Forget(base)
		_ = os.RemoveAll(base)
	}()
	db, err := kv.Open(c.Opt.KV(dir))
	if err != nil {
		return feat, &kvh.Fail{Sig: "open-error", Msg: err.Error()}
	}
	r := &c08Run{db: db, values: map[uint64]int{}}
	defer func() {
		if r.db != nil {
			func() {
				defer func() { _ = recover() }()
				_ = r.db.Close()
			}()
		}
	}()
	progs := make([][]c08Op, len(c.Clients))
	for i := range c.Clients {
		progs[i] = append([]c08Op(nil), c.Clients[i]...)
	}
	pre := append([]c08Op(nil), c.Pre...)
	r.register(append([][]c08Op{pre}, progs...)...)
	for _, op := range pre {
		r.exec(0, op)
	}
	if len(pre) > 0 {
		if c.PreMerge {
			if err := r.db.Merge(); err != nil && !errors.Is(err, kv.ErrMergeFileIDConflict) && !errors.Is(err, kv.ErrMergeRatioUnreached) {
				return feat, &kvh.Fail{Sig: "merge-error", Msg: fmt.Sprintf("Merge() before the clients start = %v", err)}
			}
		}
		if c.PreReopen {
			// the clients' first reads hit files this process has opened but not yet read
			if err := r.db.Close(); err != nil {
				return feat, &kvh.Fail{Sig: "close-error", Msg: err.Error()}
			}
			r.db, err = kv.Open(c.Opt.KV(dir))
			if err != nil {
				r.db = nil
				return feat, &kvh.Fail{Sig: "open-error", Msg: "Open after the prehistory: " + err.Error()}
			}
			feat["clients-start-on-restarted-db"] = true
			if c.PreMerge {
				feat["clients-start-on-adopted-merge"] = true
			}
		}
	}
	var wg sync.WaitGroup
	var panicked atomic.Value
	start := make(chan struct{})
	for i := range progs {
		wg.Add(1)
		go func(i int) {
			defer wg.Done()
			defer func() {
				if p := recover(); p != nil {
					panicked.Store(fmt.Sprintf("client %d panicked: %v\n%s", i, p, debug.Stack()))
				}
			}()
			debug.SetPanicOnFault(true)
			<-start
			for _, op := range progs[i] {
				r.exec(i+1, op)
			}
		}(i)
	}
	if c.Merger {
		wg.Add(1)
		go func() {
			defer wg.Done()
			defer func() {
				if p := recover(); p != nil {
					panicked.Store(fmt.Sprintf("merger panicked: %v\n%s", p, debug.Stack()))
				}
			}()
			<-start
			for i := 0; i < 2; i++ {
				r.exec(100, c08Op{K: "merge"})
			}
		}()
	}
	close(start)
	done := make(chan struct{})
	go func() { wg.Wait(); close(done) }()
	if verdict, dump := waitOrDeadlock(done, "runFree.func"); verdict != "done" {
		if verdict == "deadlock" {
			return feat, &kvh.Fail{Sig: "deadlock", Msg: "all client goroutines are parked in lock/channel waits and nothing changed between two inspections 10 s apart\n" + dump[:min(len(dump), 7000)]}
		}
		return feat, &kvh.Fail{Sig: "harness-timeout", Msg: "free-running clients did not finish within 300 s\n" + dump[:min(len(dump), 4000)]}
	}
	if p := panicked.Load(); p != nil {
		return feat, &kvh.Fail{Sig: "panic-under-concurrency", Msg: p.(string)}
	}
	for _, ev := range r.hist {
		if ev.Err != "" {
			c.History = r.hist
			return feat, &kvh.Fail{Sig: "internal-error-under-concurrency", Msg: fmt.Sprintf("client %d %s(%q) returned %s", ev.Client, ev.Op.K, ev.Op.Key, ev.Err)}
		}
	}
	f, overlap, unknown := checkHistory(r.hist)
	if f != nil {
		c.History = r.hist
		return feat, f
	}
	feat["overlap"] = overlap
	feat["porcupine-unknown"] = unknown
	feat["merge-overlapped"] = c.Merger
	db2, f := quiescentAgreement(r.db, c.Opt, dir)
	r.db = db2
	if f != nil {
		c.History = r.hist
		return feat, f
	}
	return feat, nil
}

func c08FreeRunning(t *rapid.T, st *kvh.Stats) {
	c := &c08Case{Property: "C08", Kind: "c08free"}
	c.Opt = kvh.GenOpt(t, "opt", kvh.OptProfile{MMapPercent: 10, FileSizes: []int64{100, 300, 4096, 1 << 20}})
	nk := 1 + kvh.U(t, 4, "nkeys")
	keys := []string{"k", "j", "ab", "c"}[:nk]
	nc := 2 + kvh.U(t, 15, "nclients")
	perKeyBudget := 60
	nops := 5 + kvh.U(t, 36, "nops")
	if nc*nops > perKeyBudget*nk {
		nops = max(2, perKeyBudget*nk/nc)
	}
	for i := 0; i < nc; i++ {
		var prog []c08Op
		for j := 0; j < nops; j++ {
			prog = append(prog, genC08Op(t, keys, "op"))
		}
		c.Clients = append(c.Clients, prog)
	}
	c.Merger = kvh.Pct(t, 30, "merger")
	if kvh.Pct(t, 35, "prehistory") {
		for i, n := 0, 4+kvh.U(t, 20, "npre"); i < n; i++ {
			op := genC08Op(t, keys, "pre")
			if op.K == "get" {
				op.K = "put"
				op.VLen = 1 + kvh.U(t, 120, "prevlen")
			}
			c.Pre = append(c.Pre, op)
		}
		c.PreMerge = kvh.Pct(t, 60, "premerge")
		c.PreReopen = kvh.Pct(t, 85, "prereopen")
		if kvh.Pct(t, 40, "premmap") {
			c.Opt.IO = 1
		}
	}
	kvh.PersistCase("C08", c)
	feat, f := runFree(c)
	kvh.ClearPersisted("C08")
	c08Account(t, st, c, feat, f, "free-running")
}

func TestC08(t *testing.T) {
	st := kvh.StatsFor("C08")
	st.SetRule(c08Rule,
		"interleavings are controlled at the granularity of the engine's hook points; between them the Go scheduler decides; the oracles are schedule-agnostic, so scheduling can affect what is explored but cannot cause a false alarm",
		"a client counts as blocked when its goroutine's wait state is a sync lock wait (runtime.Stack); if that cannot be established within 5 s the window is run anyway and labelled",
		"operations that return an internal error are reported by C09's error clause here as well (internal-error-under-concurrency)",
		"a porcupine time-out is counted (porcupine-unknown), never reported as a violation")
	defer finishProperty(st)
	t.Run("templates", func(t *testing.T) { c08Templates(t, st) })
	t.Run("windows", func(t *testing.T) {
		checkCases(t, st, func(t *rapid.T) { c08GeneratedWindow(t, st) })
	})
	t.Run("free", func(t *testing.T) {
		checkCases(t, st, func(t *rapid.T) { c08FreeRunning(t, st) })
	})
}

func init() {
	replayers["c08window"] = func(_ *kvh.Case, raw []byte) *kvh.Fail {
		var c c08Case
		if err := jsonUnmarshal(raw, &c); err != nil {
			return &kvh.Fail{Sig: "harness-bad-case", Msg: err.Error()}
		}
		c.History = nil
		_, f := runWindow(&c)
		return f
	}
	replayers["c08free"] = func(_ *kvh.Case, raw []byte) *kvh.Fail {
		var c c08Case
		if err := jsonUnmarshal(raw, &c); err != nil {
			return &kvh.Fail{Sig: "harness-bad-case", Msg: err.Error()}
		}
		// the saved history is the deterministic replay unit: re-check it with the oracle first
		if len(c.History) > 0 {
			if f, _, _ := checkHistory(c.History); f != nil {
				return f
			}
		}
		// then re-execute the programs a number of times (schedule dependent)
		for i := 0; i < 20; i++ {
			cc := c
			cc.History = nil
			if _, f := runFree(&cc); f != nil {
				return f
			}
		}
		return nil
	}
}

// waitOrDeadlock waits for done. Every 10 s it inspects the goroutines whose stack contains marker:
// if all of them are parked in sync lock / channel waits, none is runnable, and the picture is the same at
// two consecutive inspections, the verdict is "deadlock" (state based, not time based). After 300 s the
// verdict is "timeout" (inconclusive).
func waitOrDeadlock(done <-chan struct{}, marker string) (verdict string, dump string) {
	prev := ""
	for i := 0; i < 30; i++ {
		select {
		case <-done:
			return "done", ""
		case <-time.After(10 * time.Second):
		}
		buf := make([]byte, 4<<20)
		n := runtime.Stack(buf, true)
		dump = string(buf[:n])
		stuck, other := 0, 0
		var sig []string
		for _, g := range strings.Split(dump, "\n\n") {
			if !strings.Contains(g, marker) {
				continue
			}
			head := g
			if k := strings.IndexByte(g, '\n'); k >= 0 {
				head = g[:k]
			}
			if strings.Contains(head, "[semacquire") || strings.Contains(head, "[sync.") || strings.Contains(head, "[chan ") || strings.Contains(head, "[select") {
				stuck++
				// goroutine id + frames without the minutes counter
				if k := strings.IndexByte(head, '['); k >= 0 {
					sig = append(sig, head[:k]+g[len(head):])
				}
			} else {
				other++
			}
		}
		cur := strings.Join(sig, "|")
		if stuck > 0 && other == 0 {
			if cur == prev {
				return "deadlock", dump
			}
			prev = cur
		} else {
			prev = ""
		}
	}
	return "timeout", dump
}
